package main

import (
	"encoding/json"
	"fmt"
	gotoken "go/token"
	"os"
	"reflect"
	"strings"

	"github.com/dcaiafa/loxlex/simplelexer"

	"verifsim/core"
	"verifsim/hrt"
)

// C18Task is one parser or lexer instance with its input.
type C18Task struct {
	Pkg    string   `json:"pkg"`
	Kind   string   `json:"kind"` // parse-stub | parse-real | lex
	Tokens []string `json:"tokens,omitempty"`
	Input  []byte   `json:"input,omitempty"`
}

type C18Run struct {
	Tasks    []C18Task  `json:"tasks"`
	Policy   string     `json:"policy"`
	Seed     uint64     `json:"seed"`
	Schedule []hrt.Step `json:"schedule,omitempty"` // recorded; replayed verbatim when present
	Free     bool       `json:"free"`
	// ConcFirst: the concurrent phase runs before the sequential reference, so
	// that nothing was warmed up by an earlier execution of the same inputs
	// (lazily built package-level tables are exercised cold).
	ConcFirst bool `json:"conc_first"`
}

func worldByPkg(ws []*World, pkg string) *World {
	for _, w := range ws {
		if w.E.Pkg == pkg {
			return w
		}
	}
	return nil
}

// taskFunc returns a function that runs the task to completion and returns
// its observable history as text.
func taskFunc(ws []*World, t *C18Task, out *string) func() {
	w := worldByPkg(ws, t.Pkg)
	return func() {
		var sb strings.Builder
		switch t.Kind {
		case "lex":
			sm := w.P.NewSM()
			fset := gotoken.NewFileSet()
			file := fset.AddFile("input", -1, len(t.Input))
			lx := simplelexer.New(simplelexer.Config{StateMachine: tickSM{sm}, File: file, Input: t.Input})
			eof := w.P.Tokens["EOF"]
			for n := 0; n < 4*len(t.Input)+16; n++ {
				tok, typ := lx.ReadToken()
				fmt.Fprintf(&sb, "tok %d %q @%d\n", typ, tok.Str, file.Offset(tok.Pos))
				if typ == eof {
					break
				}
			}
		default:
			rec := hrt.NewRecorder(w.startRule())
			eof := w.P.Tokens["EOF"]
			var ret bool
			if t.Kind == "parse-real" {
				fset := gotoken.NewFileSet()
				file := fset.AddFile("input", -1, len(t.Input))
				rl := &realLexer{eof: eof}
				rl.lx = simplelexer.New(simplelexer.Config{StateMachine: tickSM{w.P.NewSM()}, File: file, Input: t.Input})
				ret = w.P.Parse(rec, rl)
				for _, d := range rl.delivered {
					fmt.Fprintf(&sb, "delivered %d %q\n", d.Type, d.Str)
				}
			} else {
				types := w.typesOf(t.Tokens)
				toks := make([]hrt.Token, len(types))
				for i, tt := range types {
					toks[i] = hrt.Token{Type: tt, Seq: i + 1, Str: []byte(t.Tokens[i])}
				}
				ret = w.P.Parse(rec, &stubLexer{toks: toks, eof: eof})
			}
			fmt.Fprintf(&sb, "returned %v errors %d bounds %d\n", ret, len(rec.Errors), rec.Bounds)
			for _, e := range rec.Errors {
				fmt.Fprintf(&sb, "error t%d:%d expected %v\n", e.Tok.Seq, e.Tok.Type, e.Expected)
			}
			sb.WriteString(strings.Join(rec.Log, "\n"))
		}
		*out = sb.String()
	}
}

// tickSM makes every PushRune a scheduling point.
type tickSM struct{ sm hrt.StateMachine }

func (t tickSM) PushRune(r rune) int { hrt.Tick("seam:PushRune"); return t.sm.PushRune(r) }
func (t tickSM) Token() int          { return t.sm.Token() }
func (t tickSM) Reset()              { t.sm.Reset() }

// globalsHash is a deep digest of every package-level variable of the
// generated files of the given packages.
func globalsHash(ws []*World, pkgs []string) map[string]uint64 {
	out := map[string]uint64{}
	for _, p := range pkgs {
		w := worldByPkg(ws, p)
		for _, g := range w.P.Globals() {
			out[p+"."+g.Name] = deepHash(g.Ptr)
		}
	}
	return out
}

func deepHash(ptr any) uint64 {
	h := uint64(1469598103934665603)
	mix := func(x uint64) {
		h ^= x
		h *= 1099511628211
	}
	switch v := ptr.(type) {
	case *[]int32:
		mix(uint64(len(*v)))
		for _, x := range (*v)[:cap(*v)] {
			mix(uint64(uint32(x)))
		}
		return h
	case *[]uint32:
		mix(uint64(len(*v)))
		for _, x := range (*v)[:cap(*v)] {
			mix(uint64(x))
		}
		return h
	}
	var walk func(v reflect.Value, depth int)
	walk = func(v reflect.Value, depth int) {
		if depth > 8 {
			return
		}
		switch v.Kind() {
		case reflect.Bool:
			if v.Bool() {
				mix(1)
			} else {
				mix(2)
			}
		case reflect.Int, reflect.Int8, reflect.Int16, reflect.Int32, reflect.Int64:
			mix(uint64(v.Int()))
		case reflect.Uint, reflect.Uint8, reflect.Uint16, reflect.Uint32, reflect.Uint64, reflect.Uintptr:
			mix(v.Uint())
		case reflect.Float32, reflect.Float64:
			mix(uint64(int64(v.Float() * 1e6)))
		case reflect.String:
			s := v.String()
			mix(uint64(len(s)))
			for i := 0; i < len(s); i++ {
				mix(uint64(s[i]))
			}
		case reflect.Slice:
			// including the hidden capacity beyond len: a shared backing array
			// is package-level state too
			mix(uint64(v.Len()))
			if v.IsNil() {
				mix(7)
				return
			}
			full := v.Slice3(0, v.Cap(), v.Cap())
			for i := 0; i < full.Len(); i++ {
				walk(full.Index(i), depth+1)
			}
		case reflect.Array:
			for i := 0; i < v.Len(); i++ {
				walk(v.Index(i), depth+1)
			}
		case reflect.Struct:
			for i := 0; i < v.NumField(); i++ {
				walk(v.Field(i), depth+1)
			}
		case reflect.Ptr, reflect.Interface:
			if v.IsNil() {
				mix(9)
				return
			}
			walk(v.Elem(), depth+1)
		case reflect.Map:
			mix(uint64(v.Len()))
			var sum uint64
			it := v.MapRange()
			for it.Next() {
				// order-independent: sum of per-entry hashes
				save := h
				h = 1469598103934665603
				walk(it.Key(), depth+1)
				walk(it.Value(), depth+1)
				sum += h
				h = save
			}
			mix(sum)
		default:
			mix(uint64(v.Kind()))
		}
	}
	walk(reflect.ValueOf(ptr).Elem(), 0)
	return h
}

type c18Outcome struct {
	Sig      map[string]string
	Detail   string
	Trace    []hrt.Step
	Switches int
	Excluded int
}

// procBase is the digest of every package-level variable of the generated
// files, taken when the process starts, before any generated code ran:
// "read-only after init" is checked against it, lazy initialisation included.
var procBase map[string]uint64

func execC18(ws []*World, run *C18Run) *c18Outcome {
	out := &c18Outcome{}
	n := len(run.Tasks)
	var pkgs []string
	seenPkg := map[string]bool{}
	for i := range run.Tasks {
		if !seenPkg[run.Tasks[i].Pkg] {
			seenPkg[run.Tasks[i].Pkg] = true
			pkgs = append(pkgs, run.Tasks[i].Pkg)
		}
	}
	if procBase == nil {
		var all []string
		for _, w := range ws {
			all = append(all, w.E.Pkg)
		}
		procBase = globalsHash(ws, all)
	}
	checkGlobals := func(when string) bool {
		now := globalsHash(ws, pkgs)
		for k, v := range now {
			if procBase[k] != v {
				out.Sig = map[string]string{"class": "package-state-mutated", "var": k[strings.Index(k, ".")+1:]}
				out.Detail = fmt.Sprintf("package-level variable %s changed %s", k, when)
				return false
			}
		}
		return true
	}
	seq := make([]string, n)
	seqOK := make([]bool, n)
	sequential := func() {
		for i := range run.Tasks {
			t := &run.Tasks[i]
			w := worldByPkg(ws, t.Pkg)
			v := hrt.RunSolo(w.budget(len(t.Tokens)+len(t.Input)), taskFunc(ws, t, &seq[i]))
			seqOK[i] = v.Kind == "ok"
			if !seqOK[i] {
				out.Excluded++ // does not terminate or panics alone: a C09/C11 matter, not a concurrency one
			}
		}
	}
	conc := make([]string, n)
	var verdicts []hrt.Verdict
	concurrent := func() bool {
		fs := make([]func(), n)
		budgets := make([]int64, n)
		for i := range run.Tasks {
			t := &run.Tasks[i]
			fs[i] = taskFunc(ws, t, &conc[i])
			budgets[i] = 4*worldByPkg(ws, t.Pkg).budget(len(t.Tokens)+len(t.Input)) + 1000
		}
		if run.Free {
			verdicts = hrt.RunFree(fs)
			return checkGlobals("during free-running execution")
		}
		r := core.NewRand(run.Seed)
		step := 0
		victim := r.Intn(n)
		rr := 0
		choose := func(runnable []int) hrt.Step {
			if step < len(run.Schedule) {
				s := run.Schedule[step]
				step++
				for _, x := range runnable {
					if x == s.Task {
						return s
					}
				}
				return hrt.Step{Task: runnable[0], Quantum: s.Quantum}
			}
			step++
			switch run.Policy {
			case "rtc":
				q := 1 << 30
				if r.Intn(10) == 0 {
					q = 1 + r.Intn(200)
				}
				return hrt.Step{Task: runnable[r.Intn(len(runnable))], Quantum: q}
			case "alternate":
				rr++
				return hrt.Step{Task: runnable[rr%len(runnable)], Quantum: 1 + r.Intn(3)}
			case "starve":
				var others []int
				for _, x := range runnable {
					if x != victim {
						others = append(others, x)
					}
				}
				if len(others) > 0 {
					return hrt.Step{Task: others[r.Intn(len(others))], Quantum: 1 + r.Intn(12)}
				}
				return hrt.Step{Task: victim, Quantum: 1 << 30}
			default:
				return hrt.Step{Task: runnable[r.Intn(len(runnable))], Quantum: 1 + r.Intn(9)}
			}
		}
		ok := true
		atSwitch := func(s int) {
			if ok && s%16 == 0 {
				ok = checkGlobals(fmt.Sprintf("by scheduling step %d of the concurrent phase", s))
			}
		}
		verdicts, out.Trace = hrt.RunConcurrent(fs, budgets, choose, atSwitch)
		out.Switches = len(out.Trace)
		if ok {
			ok = checkGlobals("by the end of the concurrent phase")
		}
		return ok
	}
	if run.ConcFirst && !run.Free {
		if !concurrent() {
			return out
		}
		sequential()
		if !checkGlobals("during sequential execution") {
			return out
		}
	} else {
		// free-running tasks have no tick budget: tasks are screened for
		// termination by the sequential phase first
		sequential()
		if !checkGlobals("during sequential execution") {
			return out
		}
		if run.Free {
			// only tasks that terminate alone may run without a budget
			var keep []C18Task
			var kseq []string
			for i := range run.Tasks {
				if seqOK[i] {
					keep = append(keep, run.Tasks[i])
					kseq = append(kseq, seq[i])
				}
			}
			if len(keep) < 2 {
				return out
			}
			run.Tasks, seq, n = keep, kseq, len(keep)
			seqOK = make([]bool, n)
			for i := range seqOK {
				seqOK[i] = true
			}
			conc = make([]string, n)
		}
		if !concurrent() {
			return out
		}
	}
	for i := range run.Tasks {
		if !seqOK[i] {
			continue
		}
		if verdicts[i].Kind != "ok" {
			out.Sig = map[string]string{"class": "concurrent-" + verdicts[i].Kind, "kind": run.Tasks[i].Kind}
			out.Detail = fmt.Sprintf("task %d (%s on %s) ended with %s when run concurrently but terminated normally when run alone", i, run.Tasks[i].Kind, run.Tasks[i].Pkg, verdicts[i].String())
			return out
		}
		if conc[i] != seq[i] {
			out.Sig = map[string]string{"class": "history-differs", "kind": run.Tasks[i].Kind}
			out.Detail = fmt.Sprintf("task %d (%s on %s): history under concurrency differs from sequential execution (concurrent phase first: %v)\n--- sequential\n%s\n--- concurrent\n%s",
				i, run.Tasks[i].Kind, run.Tasks[i].Pkg, run.ConcFirst, clipS(seq[i], 1500), clipS(conc[i], 1500))
			return out
		}
	}
	return out
}

func clipS(s string, n int) string {
	if len(s) > n {
		return s[:n] + "…"
	}
	return s
}

func genC18(ws []*World, r *core.Rand, free bool) *C18Run {
	run := &C18Run{Seed: r.Uint64(), Free: free, ConcFirst: r.Intn(2) == 0}
	run.Policy = []string{"uniform", "uniform", "rtc", "alternate", "starve"}[r.Intn(5)]
	k := 2 + r.Intn(5)
	same := r.Intn(2) == 0
	w0 := ws[r.Intn(len(ws))]
	// a quarter of the runs stress one grammar that has lexer modes with
	// several lexer instances whose inputs start with a lexical error (the
	// driver then resets the machine) before modes are pushed and popped
	var moded []*World
	for _, w := range ws {
		if len(w.E.Spec.Modes) > 1 {
			moded = append(moded, w)
		}
	}
	if len(moded) > 0 && r.Intn(4) == 0 {
		w := moded[r.Intn(len(moded))]
		run.Policy = []string{"uniform", "alternate"}[r.Intn(2)]
		for i := 0; i < k; i++ {
			in := w.genInput(r).Input
			if r.Intn(4) > 0 {
				in = append([]byte{'\x01', '\n'}, in...)
			}
			run.Tasks = append(run.Tasks, C18Task{Pkg: w.E.Pkg, Kind: "lex", Input: in})
		}
		return run
	}
	for i := 0; i < k; i++ {
		w := w0
		if !same {
			w = ws[r.Intn(len(ws))]
		}
		t := C18Task{Pkg: w.E.Pkg}
		switch r.Intn(5) {
		case 0:
			t.Kind = "lex"
			t.Input = w.genInput(r).Input
		case 1:
			if w.E.RealLexable {
				t.Kind = "parse-real"
				s := w.genStream(r)
				t.Input = byteFaults(r, w.renderText(r, s.Tokens), s)
				break
			}
			fallthrough
		default:
			t.Kind = "parse-stub"
			t.Tokens = w.genStream(r).Tokens
		}
		run.Tasks = append(run.Tasks, t)
		if same && r.Intn(3) == 0 {
			// identical instance twice: same grammar, same input
			run.Tasks = append(run.Tasks, t)
			i++
		}
	}
	return run
}

func specsOf(ws []*World, run *C18Run) []any {
	var out []any
	seen := map[string]bool{}
	for _, t := range run.Tasks {
		if !seen[t.Pkg] {
			seen[t.Pkg] = true
			out = append(out, worldByPkg(ws, t.Pkg).E.Spec)
		}
	}
	return out
}

func minimiseC18(ws []*World, run *C18Run, sig map[string]string) *C18Run {
	cur := *run
	key := sigKey(sig)
	for i := len(cur.Tasks) - 1; i >= 0 && len(cur.Tasks) > 2; i-- {
		cand := cur
		cand.Schedule = nil
		cand.Tasks = append(append([]C18Task{}, cur.Tasks[:i]...), cur.Tasks[i+1:]...)
		o := execC18(ws, &cand)
		if o.Sig != nil && sigKey(o.Sig) == key {
			cur = cand
		}
	}
	o := execC18(ws, &cur)
	cur.Schedule = o.Trace
	return &cur
}

func runC18(ws []*World, seed uint64, runs, shard, nshard int, free bool, res *Result) {
	// In this mode shards split runs, not grammars: every shard sees every package.
	for i := shard; i < runs; i += nshard {
		r := core.NewRand(core.Derive(seed, "c18", i))
		run := genC18(ws, r, free)
		o := execC18(ws, run)
		res.Runs++
		res.Stats["tasks"] += int64(len(run.Tasks))
		res.Stats["tasks_excluded_nonterminating_alone"] += int64(o.Excluded)
		res.Stats["policy:"+run.Policy]++
		res.Stats["switches"] += int64(o.Switches)
		for _, t := range run.Tasks {
			res.Stats["taskkind:"+t.Kind]++
		}
		samePkg := true
		for _, t := range run.Tasks {
			if t.Pkg != run.Tasks[0].Pkg {
				samePkg = false
			}
		}
		if samePkg {
			res.Stats["runs_same_grammar"]++
		} else {
			res.Stats["runs_mixed_grammars"]++
		}
		if run.ConcFirst {
			res.Stats["runs_concurrent_phase_first"]++
		}
		if o.Switches > len(run.Tasks) || free {
			res.markDistinct(hash64(o.Trace, run.Tasks))
		}
		if o.Sig != nil {
			r2 := run
			if !free {
				r2 = minimiseC18(ws, run, o.Sig)
			}
			res.violation(o.Sig, o.Detail, func() any {
				return map[string]any{"mode": "c18", "run": r2, "specs": specsOf(ws, r2)}
			})
		}
		if res.Runs%997 == 1 {
			res.sample(map[string]any{"tasks": run.Tasks, "policy": run.Policy, "switches": o.Switches, "first_steps": firstSteps(o.Trace, 12), "free": free})
		}
	}
}

func firstSteps(t []hrt.Step, n int) []hrt.Step {
	if len(t) > n {
		return t[:n]
	}
	return t
}

func replayC18(ws []*World, path string, res *Result, free bool) {
	data, err := os.ReadFile(path)
	if err != nil {
		res.Infra = err.Error()
		return
	}
	var doc struct {
		Run *C18Run `json:"run"`
	}
	if err := json.Unmarshal(data, &doc); err != nil || doc.Run == nil {
		res.Infra = "bad replay file"
		return
	}
	for _, t := range doc.Run.Tasks {
		if worldByPkg(ws, t.Pkg) == nil {
			res.Infra = "replay: package not linked: " + t.Pkg
			return
		}
	}
	o := execC18(ws, doc.Run)
	res.Runs++
	if o.Sig != nil {
		res.violation(o.Sig, o.Detail, nil)
	}
}
