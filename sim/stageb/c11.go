package stageb

import (
	"fmt"
	"os"
	"time"

	"verifsim/core"
	"verifsim/specgen"
)

func lexerCandidate(seed uint64) Candidate {
	return func(i int) (*specgen.Spec, bool) {
		// every ninth candidate carries the idiom of nullable rules that only
		// switch modes; the others keep the sequence they had before
		if i%9 == 8 {
			return specgen.Generate(core.Derive(seed, "c11-cycle-spec", i/9), specgen.Options{RichLexer: true, Family: "nullable-mode-cycle"}), false
		}
		i -= (i + 1) / 9
		return specgen.Generate(core.Derive(seed, "c11-spec", i), specgen.Options{RichLexer: true}), false
	}
}

func CheckC11(tier string, seed uint64, rep *core.Reporter) (*core.Evidence, error) {
	start := time.Now()
	n, runs, batches := 27, 4000, 1
	if tier == "thorough" {
		n, runs, batches = 168, 20000, 3
	}
	if v := os.Getenv("VERIF_C11_SPECS"); v != "" {
		fmt.Sscan(v, &n)
	}
	total := &Result{Stats: map[string]int64{}}
	detHash := ""
	rejected := 0
	reasons := map[string]int{}
	feat := map[string]int{}
	yields := 0
	var genWall, buildWall time.Duration
	for b := 0; b < batches; b++ {
		bseed := core.Derive(seed, "c11-batch", b)
		w, err := Build("C11", n, lexerCandidate(bseed), false)
		if err != nil {
			return nil, err
		}
		for _, e := range w.Entries {
			if len(e.Spec.Modes) > 1 {
				feat["specs_with_modes"]++
			}
			for _, m := range e.Spec.Modes {
				for _, r := range m.Rules {
					if r.Expr == nil {
						continue
					}
					if r.Kind != specgen.RMacro && specgen.Nullable(r.Expr, nil) {
						feat["rules_matching_empty_string"]++
					}
					if r.Kind == specgen.RFrag && len(r.Actions) == 0 {
						feat["accumulating_fragments"]++
					}
					if r.Expr.Op == specgen.LSeq && len(r.Expr.Kids) == 3 && (r.Expr.Kids[1].Card == specgen.CStarNG || r.Expr.Kids[1].Card == specgen.CPlusNG) {
						feat["non_greedy_rules"]++
					}
				}
			}
		}
		res, err := w.RunShards(w.Runsim, "c11", bseed, runs, 14, nil, nil, 40*time.Minute)
		if err == nil && b == 0 && newViolations(rep, res) == 0 {
			detHash, err = w.DeterminismProbe(w.Runsim, "c11", bseed, 300, nil)
		}
		rejected += w.Rejected
		for k, v := range w.Reasons {
			reasons[k] += v
		}
		genWall += w.GenWall
		buildWall += w.BuildWall
		yields += w.YieldSites
		w.Close()
		if err != nil {
			return nil, err
		}
		total.Runs += res.Runs
		total.Distinct += res.Distinct
		for k, v := range res.Stats {
			total.Stats[k] += v
		}
		total.Violations = append(total.Violations, res.Violations...)
		total.Notes = append(total.Notes, res.Notes...)
		if len(total.Samples) < 8 {
			total.Samples = append(total.Samples, res.Samples...)
		}
	}
	report(rep, total)
	if len(total.Samples) == 0 {
		total.Samples = append(total.Samples, "no sample recorded")
	}
	wall := time.Since(start).Seconds()
	ev := &core.Evidence{
		PropertyID: "C11", Tier: tier, Seed: int64(seed), Level: "fault_enumeration",
		Coverage: map[string]any{
			"evaluations":         total.Runs,
			"distinct_nontrivial": total.Distinct,
			"rule": "one evaluation = one input lexed to EOF by the unmodified simplelexer driving the real generated state machine, with the conservation monitor at the StateMachine seam (every PushRune result and every returned token checked, segments must tile the input, EOF only with no open segment, bounded PushRune calls). Inputs walk the rules' expressions, then take 0-3 faults (truncation at any byte incl. mid-rune, bit flip, stray byte, deletion, newline removal, invalid UTF-8); plus every input of at most 2 runes over a 10-rune alphabet. " +
				"distinct_nontrivial = distinct (specification, input bytes) among runs with at least one fault",
			"samples":                total.Samples,
			"exhaustive":             false,
			"specifications":         n * batches,
			"spec_features":          feat,
			"specs_rejected_by_lox":  rejected,
			"rejection_reasons":      reasons,
			"fault_kinds_fired":      statsSubset(total.Stats, "fault:"),
			"segments_by_kind":       statsSubset(total.Stats, "segments:"),
			"probes":                 statsSubset(total.Stats, "probe:"),
			"fault_free_runs":        total.Stats["fault_free_runs"],
			"bytes_lexed":            total.Stats["bytes"],
			"pushrune_calls":         total.Stats["pushrune_calls"],
			"tokens_returned":        total.Stats["tokens"],
			"logical_steps_ticks":    total.Stats["ticks"],
			"p4_tick_sites":          yields,
			"runs_per_hour":          int(float64(total.Runs) / wall * 3600),
			"world_generation_s":     genWall.Seconds(),
			"world_build_s":          buildWall.Seconds(),
			"simulated_time":         "none: logical steps (PushRune calls, ticks) only",
			"components_real":        []string{"lox binary built from the current tree", "generated _LexerStateMachine compiled by the Go compiler", "unmodified loxlex/simplelexer driver"},
			"components_simulated":   []string{"the byte stream (content and where it ends)", "liveness budget in PushRune calls and ticks"},
			"components_stubbed":     []string{"the parser is not involved"},
			"determinism_probe":      probeText(detHash),
			"stats_hash":             total.StatsHash(),
			"known_findings_hit":     rep.KnownHits,
		},
		Assumptions: []string{
			"4*(runes+lines)+16 PushRune calls bound any terminating lexing (2*runes+2*errors+3 is a true bound for a correct machine)",
			"the stretch an ERROR token stands for ends where the driver itself resumes (observed, not re-implemented)",
		},
		WallS: wall,
	}
	return ev, nil
}
