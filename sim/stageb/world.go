// Package stageb is the coordinator of the run-time simulation (run-sim): it
// generates specifications, has the real lox (built from the current tree)
// generate their lexers and parsers, applies pass P4, links everything with the
// runsim harness into one program and runs it in shards.
package stageb

import (
	"bytes"
	"encoding/json"
	"fmt"
	"io/fs"
	"os"
	"os/exec"
	"path/filepath"
	"sort"
	"strings"
	"sync"
	"time"

	"verifsim"
	"verifsim/core"
	"verifsim/instr"
	"verifsim/specgen"
	"verifsim/stagea"
)

const zz = "github.com/dcaiafa/lox/internal/zzverif/"

type SpecEntry struct {
	Pkg         string        `json:"pkg"`
	Spec        *specgen.Spec `json:"spec"`
	RealLexable bool          `json:"real_lexable"`
	Lox         string        `json:"lox"`
}

type World struct {
	T         *stagea.Tree
	Entries   []*SpecEntry
	Rejected  int
	Reasons   map[string]int
	Runsim    string
	RunsimRace string
	SpecsPath string
	Globals   map[string][]string
	YieldSites int
	GenWall   time.Duration
	BuildWall time.Duration
}

func copyHarness(t *stagea.Tree) error {
	for _, sub := range []string{"hrt", "specgen", "earley", "core", "runsim"} {
		dst := filepath.Join(t.Plain, "internal", "zzverif", sub)
		if err := os.MkdirAll(dst, 0o755); err != nil {
			return err
		}
		ents, err := fs.ReadDir(verifsim.FS, sub)
		if err != nil {
			return err
		}
		for _, e := range ents {
			if strings.HasSuffix(e.Name(), "_test.go") {
				continue
			}
			data, err := verifsim.FS.ReadFile(sub + "/" + e.Name())
			if err != nil {
				return err
			}
			data = bytes.ReplaceAll(data, []byte("\"verifsim/"), []byte("\""+zz))
			if err := os.WriteFile(filepath.Join(dst, e.Name()), data, 0o644); err != nil {
				return err
			}
		}
	}
	return nil
}

// Candidate produces the i-th candidate specification.
type Candidate func(i int) (*specgen.Spec, bool)

// Build makes a world of n accepted grammars.
func Build(id string, n int, cand Candidate, race bool) (*World, error) {
	t, err := stagea.NewTree(id, false)
	if err != nil {
		return nil, err
	}
	w := &World{T: t, Reasons: map[string]int{}, Globals: map[string][]string{}}
	if err := copyHarness(t); err != nil {
		t.Close()
		return nil, stagea.Infra("copy harness: %v", err)
	}
	start := time.Now()
	groot := filepath.Join(t.Plain, "internal", "zzverif", "g")
	type cres struct {
		i     int
		entry *SpecEntry
		err   error
		why   string
	}
	next := 0
	accepted := map[int]*SpecEntry{}
	for len(accepted) < n {
		if next > n*12+40 {
			t.Close()
			return nil, stagea.Infra("only %d of %d candidate grammars were accepted by lox after %d attempts", len(accepted), n, next)
		}
		batch := (n - len(accepted)) + (n-len(accepted))/2 + 2
		results := make([]cres, batch)
		var wg sync.WaitGroup
		sem := make(chan struct{}, 6)
		for b := 0; b < batch; b++ {
			wg.Add(1)
			go func(b, i int) {
				defer wg.Done()
				sem <- struct{}{}
				defer func() { <-sem }()
				spec, lexable := cand(i)
				pkg := fmt.Sprintf("g%04d", i)
				spec.Pkg = pkg
				dir := filepath.Join(groot, specgen.DirOf(pkg))
				files := spec.LoxFiles()
				files["parser.go"], _ = spec.GoStageB(pkg, zz+"hrt")
				if err := stagea.Materialise(dir, files, true); err != nil {
					results[b] = cres{i: i, err: err}
					return
				}
				r, err := t.Generate(stagea.Invocation{Bin: t.Lox, Dir: dir, CwdMode: "dot"}, "")
				if err != nil {
					results[b] = cres{i: i, err: err}
					return
				}
				if r.Exit != 0 {
					os.RemoveAll(filepath.Join(groot, pkg))
					why := firstLine(string(r.Stderr))
					results[b] = cres{i: i, why: why}
					return
				}
				results[b] = cres{i: i, entry: &SpecEntry{Pkg: pkg, Spec: spec, RealLexable: lexable, Lox: spec.LexerText() + spec.ParserText()}}
			}(b, next+b)
		}
		wg.Wait()
		next += batch
		for _, r := range results {
			if r.err != nil {
				t.Close()
				return nil, r.err
			}
			if r.entry == nil {
				w.Rejected++
				w.Reasons[r.why]++
				continue
			}
			accepted[r.i] = r.entry
		}
	}
	idx := make([]int, 0, len(accepted))
	for i := range accepted {
		idx = append(idx, i)
	}
	sort.Ints(idx)
	for k, i := range idx {
		if k >= n {
			os.RemoveAll(filepath.Join(groot, accepted[i].Pkg))
			continue
		}
		w.Entries = append(w.Entries, accepted[i])
	}
	w.GenWall = time.Since(start)
	if err := w.link(race); err != nil {
		t.Close()
		return nil, err
	}
	return w, nil
}

func firstLine(s string) string {
	s = strings.TrimSpace(s)
	if i := strings.Index(s, "\n"); i >= 0 {
		s = s[:i]
	}
	if i := strings.Index(s, ": "); i >= 0 && strings.Contains(s[:i], ".lox") {
		s = s[i+2:]
	}
	if len(s) > 80 {
		s = s[:80]
	}
	return s
}

// link applies P4 to every accepted package and builds runsim.
func (w *World) link(race bool) error {
	t := w.T
	start := time.Now()
	groot := filepath.Join(t.Plain, "internal", "zzverif", "g")
	var imp strings.Builder
	imp.WriteString("package main\n\nimport (\n")
	for _, e := range w.Entries {
		rep, err := instr.InstrumentGenerated(filepath.Join(groot, specgen.DirOf(e.Pkg)), zz+"hrt")
		if err != nil {
			return stagea.Infra("P4 on %s: %v", e.Pkg, err)
		}
		w.Globals[e.Pkg] = rep.Globals
		_, reg := e.Spec.GoStageB(e.Pkg, zz+"hrt")
		if err := os.WriteFile(filepath.Join(groot, specgen.DirOf(e.Pkg), "register.go"), []byte(reg), 0o644); err != nil {
			return stagea.Infra("%v", err)
		}
		w.YieldSites += rep.Yields
		fmt.Fprintf(&imp, "\t_ %q\n", zz+"g/"+specgen.DirOf(e.Pkg))
	}
	imp.WriteString(")\n")
	rs := filepath.Join(t.Plain, "internal", "zzverif", "runsim")
	if err := os.WriteFile(filepath.Join(rs, "imports_gen.go"), []byte(imp.String()), 0o644); err != nil {
		return stagea.Infra("%v", err)
	}
	b, _ := json.Marshal(w.Entries)
	w.SpecsPath = filepath.Join(t.Base, "specs.json")
	if err := os.WriteFile(w.SpecsPath, b, 0o644); err != nil {
		return stagea.Infra("%v", err)
	}
	w.Runsim = filepath.Join(t.Base, "bin", "runsim")
	build := func(out string, extra ...string) error {
		args := append([]string{"build"}, extra...)
		args = append(args, "-o", out, "./internal/zzverif/runsim")
		cmd := exec.Command("go", args...)
		cmd.Dir = t.Plain
		cmd.Env = stagea.GoEnv()
		if o, err := cmd.CombinedOutput(); err != nil {
			return stagea.Infra("the generated packages do not build with the harness (go %s): %v\n%s", strings.Join(args, " "), err, tailS(string(o), 3000))
		}
		return nil
	}
	if err := build(w.Runsim); err != nil {
		return err
	}
	if race {
		w.RunsimRace = filepath.Join(t.Base, "bin", "runsim-race")
		if err := build(w.RunsimRace, "-race"); err != nil {
			return err
		}
	}
	w.BuildWall = time.Since(start)
	return nil
}

func tailS(s string, n int) string {
	if len(s) > n {
		return "…" + s[len(s)-n:]
	}
	return s
}

func (w *World) Close() { w.T.Close() }

// ---------------------------------------------------------------------------

type Viol struct {
	Sig    map[string]string `json:"sig"`
	Detail string            `json:"detail"`
	Replay json.RawMessage   `json:"replay"`
	Count  int               `json:"count"`
}

type Result struct {
	Mode       string           `json:"mode"`
	Runs       int64            `json:"runs"`
	Stats      map[string]int64 `json:"stats"`
	Violations []*Viol          `json:"violations"`
	Notes      []string         `json:"notes"`
	Samples    []any            `json:"samples"`
	Distinct   int64            `json:"distinct"`
	Infra      string           `json:"infra"`
	Stderr     string           `json:"-"`
}

// RunShards runs the harness in nshard OS processes and merges the results.
func (w *World) RunShards(bin, mode string, seed uint64, runs, nshard int, extra []string, env []string, timeout time.Duration) (*Result, error) {
	if nshard > len(w.Entries) {
		nshard = len(w.Entries)
	}
	if nshard < 1 {
		nshard = 1
	}
	results := make([]*Result, nshard)
	errs := make([]error, nshard)
	var wg sync.WaitGroup
	for s := 0; s < nshard; s++ {
		wg.Add(1)
		go func(s int) {
			defer wg.Done()
			out := filepath.Join(w.T.Base, fmt.Sprintf("result-%s-%d.json", mode, s))
			args := []string{"-mode", mode, "-specs", w.SpecsPath, "-out", out, "-seed", fmt.Sprint(seed), "-runs", fmt.Sprint(runs),
				"-shard", fmt.Sprint(s), "-nshard", fmt.Sprint(nshard)}
			args = append(args, extra...)
			results[s], errs[s] = runHarness(bin, args, out, env, timeout)
		}(s)
	}
	wg.Wait()
	merged := &Result{Mode: mode, Stats: map[string]int64{}}
	seen := map[string]*Viol{}
	for s := 0; s < nshard; s++ {
		if errs[s] != nil {
			return nil, errs[s]
		}
		r := results[s]
		if r.Infra != "" {
			return nil, stagea.Infra("harness: %s", r.Infra)
		}
		merged.Runs += r.Runs
		merged.Distinct += r.Distinct
		merged.Stderr += r.Stderr
		for k, v := range r.Stats {
			merged.Stats[k] += v
		}
		merged.Notes = append(merged.Notes, r.Notes...)
		if len(merged.Samples) < 8 {
			merged.Samples = append(merged.Samples, r.Samples...)
		}
		for _, v := range r.Violations {
			k := core.Signature(v.Sig).String()
			if o := seen[k]; o != nil {
				o.Count += v.Count
				continue
			}
			seen[k] = v
			merged.Violations = append(merged.Violations, v)
		}
	}
	return merged, nil
}

func runHarness(bin string, args []string, out string, env []string, timeout time.Duration) (*Result, error) {
	cmd := exec.Command(bin, args...)
	cmd.Env = append(os.Environ(), env...)
	var se bytes.Buffer
	cmd.Stderr = &se
	cmd.Stdout = &se
	if err := cmd.Start(); err != nil {
		return nil, stagea.Infra("start harness: %v", err)
	}
	done := make(chan error, 1)
	go func() { done <- cmd.Wait() }()
	var werr error
	select {
	case werr = <-done:
	case <-time.After(timeout):
		cmd.Process.Kill()
		<-done
		return nil, stagea.Infra("harness watchdog (%v) expired: %s", timeout, tailS(se.String(), 1500))
	}
	data, rerr := os.ReadFile(out)
	if rerr != nil {
		return nil, &HarnessCrash{Cmd: filepath.Base(bin) + " " + strings.Join(args, " "), Err: fmt.Sprint(werr), Stderr: se.String()}
	}
	var r Result
	if err := json.Unmarshal(data, &r); err != nil {
		return nil, stagea.Infra("bad harness result: %v", err)
	}
	r.Stderr = se.String()
	if werr != nil && r.Infra == "" && !strings.Contains(r.Stderr, "DATA RACE") {
		return nil, stagea.Infra("harness failed: %v: %s", werr, tailS(se.String(), 3000))
	}
	return &r, nil
}

// BuildFixed builds a world from recorded specifications (replay): package
// names are the recorded ones.
func BuildFixed(id string, specs []*specgen.Spec, lexable, race bool) (*World, error) {
	t, err := stagea.NewTree(id, false)
	if err != nil {
		return nil, err
	}
	w := &World{T: t, Reasons: map[string]int{}, Globals: map[string][]string{}}
	if err := copyHarness(t); err != nil {
		t.Close()
		return nil, stagea.Infra("copy harness: %v", err)
	}
	groot := filepath.Join(t.Plain, "internal", "zzverif", "g")
	for _, spec := range specs {
		pkg := spec.Pkg
		dir := filepath.Join(groot, specgen.DirOf(pkg))
		files := spec.LoxFiles()
		files["parser.go"], _ = spec.GoStageB(pkg, zz+"hrt")
		if err := stagea.Materialise(dir, files, true); err != nil {
			t.Close()
			return nil, stagea.Infra("%v", err)
		}
		r, err := t.Generate(stagea.Invocation{Bin: t.Lox, Dir: dir, CwdMode: "dot"}, "")
		if err != nil {
			t.Close()
			return nil, err
		}
		if r.Exit != 0 {
			t.Close()
			return nil, stagea.Infra("replay: the current lox no longer accepts the recorded grammar %s: %s", pkg, firstLine(string(r.Stderr)))
		}
		w.Entries = append(w.Entries, &SpecEntry{Pkg: pkg, Spec: spec, RealLexable: lexable, Lox: spec.LexerText() + spec.ParserText()})
	}
	if err := w.link(race); err != nil {
		t.Close()
		return nil, err
	}
	return w, nil
}

// StatsHash is a digest of everything the harness counted: two executions of
// the same seeded workload must agree on it exactly.
func (r *Result) StatsHash() string {
	keys := make([]string, 0, len(r.Stats))
	for k := range r.Stats {
		keys = append(keys, k)
	}
	sort.Strings(keys)
	var sb strings.Builder
	fmt.Fprintf(&sb, "runs=%d;distinct=%d;", r.Runs, r.Distinct)
	for _, k := range keys {
		fmt.Fprintf(&sb, "%s=%d;", k, r.Stats[k])
	}
	for _, v := range r.Violations {
		sb.WriteString(core.Signature(v.Sig).String() + ";")
	}
	return fmt.Sprintf("%016x", core.Derive(0, sb.String(), 0))
}

// DeterminismProbe runs the same seeded workload twice more, with another
// sharding and GOMAXPROCS, and compares everything counted. A difference is
// trouble of the machinery (a forgotten source of nondeterminism), not a
// violation.
func (w *World) DeterminismProbe(bin, mode string, seed uint64, runs int, extra []string) (string, error) {
	a, err := w.RunShards(bin, mode, seed, runs, 14, extra, []string{"GOMAXPROCS=4"}, 20*time.Minute)
	if err != nil {
		return "", err
	}
	b, err := w.RunShards(bin, mode, seed, runs, 5, extra, []string{"GOMAXPROCS=1"}, 20*time.Minute)
	if err != nil {
		return "", err
	}
	if a.StatsHash() != b.StatsHash() {
		diff := ""
		for k, v := range a.Stats {
			if b.Stats[k] != v {
				diff += fmt.Sprintf(" %s:%d/%d", k, v, b.Stats[k])
			}
		}
		return "", stagea.Infra("harness is not deterministic: two executions of seed %d differ (%s vs %s;%s)", seed, a.StatsHash(), b.StatsHash(), diff)
	}
	return a.StatsHash(), nil
}

// HarnessCrash: the harness process ended without writing a result.
type HarnessCrash struct {
	Cmd    string
	Err    string
	Stderr string
}

func (h *HarnessCrash) Error() string {
	head := h.Stderr
	if len(head) > 1200 {
		head = head[:1200] + "\n…\n" + tailS(h.Stderr, 1500)
	}
	return fmt.Sprintf("harness %s produced no result (%s): %s", h.Cmd, h.Err, head)
}
