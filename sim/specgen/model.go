// Package specgen is the workload generator: a structured model of a lox
// specification (lexer and parser sections), seeded generators for it,
// printers to .lox text and to the Go sources lox needs beside it, and the
// expansion of the parser section into a plain context-free grammar for the
// reference model. Nothing here looks at lox's own data structures.
package specgen

import (
	"fmt"
	"strings"
)

type Card int

const (
	One Card = iota
	Opt
	Star
	Plus
	StarF // *!
)

type TermKind int

const (
	KTok TermKind = iota
	KRule
	KErr
	KList
)

type Term struct {
	Kind    TermKind `json:"kind"`
	Name    string   `json:"name,omitempty"` // token or rule name
	Lit     bool     `json:"lit,omitempty"`  // print the token by its literal alias
	Card    Card     `json:"card,omitempty"`
	Elem    *Term    `json:"elem,omitempty"` // KList
	Sep     *Term    `json:"sep,omitempty"`  // KList
	ListOpt bool     `json:"listopt,omitempty"`
}

type Prod struct {
	Terms  []*Term `json:"terms"` // empty = @empty
	Qualif string  `json:"qualif,omitempty"`
}

type Rule struct {
	Name  string  `json:"name"`
	Prods []*Prod `json:"prods"`
	Ret   int     `json:"ret"` // index into the Go printer's node kinds
}

// Lexer model.

const (
	LLit = iota
	LClass
	LAny
	LRef
	LSeq
	LAlt
)

const (
	COne = iota
	COpt
	CStar
	CPlus
	CStarNG
	CPlusNG
)

type LexExpr struct {
	Op     int        `json:"op"`
	Lit    string     `json:"lit,omitempty"`
	Neg    bool       `json:"neg,omitempty"`
	Ranges [][2]rune  `json:"ranges,omitempty"`
	Minus  [][2]rune  `json:"minus,omitempty"` // class difference: [Ranges] - [Minus]
	Ref    string     `json:"ref,omitempty"`
	Kids   []*LexExpr `json:"kids,omitempty"`
	Card   int        `json:"card,omitempty"`
}

const (
	RTok = iota
	RFrag
	RMacro
	RExternal
)

const (
	ADiscard = iota
	APush
	APop
	AEmit
)

type LexAction struct {
	Kind int    `json:"kind"`
	Arg  string `json:"arg,omitempty"`
}

type LexRule struct {
	Kind    int         `json:"kind"`
	Name    string      `json:"name,omitempty"`
	Names   []string    `json:"names,omitempty"` // RExternal
	Expr    *LexExpr    `json:"expr,omitempty"`
	Actions []LexAction `json:"actions,omitempty"`
}

type LexMode struct {
	Name  string     `json:"name"` // "" = default mode
	Rules []*LexRule `json:"rules"`
}

type Spec struct {
	Pkg       string     `json:"pkg"`
	Modes     []*LexMode `json:"modes"`
	Rules     []*Rule    `json:"rules"` // Rules[Start] carries @start
	Start     int        `json:"start"`
	OnBounds  bool       `json:"on_bounds"`
	TwoFiles  bool       `json:"two_files"`
	SplitLex  bool       `json:"split_lexer"` // with TwoFiles: the lexer section is itself split over two files
	Family    string     `json:"family"`
	LexFamily string     `json:"lex_family"`
}

// TokenNames lists declared token names (token rules and externals) in
// declaration order.
func (s *Spec) TokenNames() []string {
	var names []string
	for _, m := range s.Modes {
		for _, r := range m.Rules {
			switch r.Kind {
			case RTok:
				names = append(names, r.Name)
			case RExternal:
				names = append(names, r.Names...)
			}
		}
	}
	return names
}

// LiteralOf returns the literal alias of a token declared as NAME = 'lit'
// without cardinality (actions allowed), or "".
func (s *Spec) LiteralOf(name string) string {
	for _, m := range s.Modes {
		for _, r := range m.Rules {
			if r.Kind == RTok && r.Name == name && r.Expr.Op == LLit && r.Expr.Card == COne {
				return r.Expr.Lit
			}
		}
	}
	return ""
}

func (s *Spec) RuleByName(n string) *Rule {
	for _, r := range s.Rules {
		if r.Name == n {
			return r
		}
	}
	return nil
}

// ---------------------------------------------------------------------------
// .lox printer

func escLit(s string) string {
	var sb strings.Builder
	for _, r := range s {
		switch {
		case r == '\\':
			sb.WriteString(`\\`)
		case r == '\'':
			sb.WriteString(`\'`)
		case r == '\n':
			sb.WriteString(`\n`)
		case r == '\r':
			sb.WriteString(`\r`)
		case r == '\t':
			sb.WriteString(`\t`)
		case r >= 0x20 && r < 0x7f:
			sb.WriteRune(r)
		case r <= 0xff:
			fmt.Fprintf(&sb, `\x%02X`, r)
		case r <= 0xffff:
			fmt.Fprintf(&sb, `\u%04X`, r)
		default:
			fmt.Fprintf(&sb, `\U%08X`, r)
		}
	}
	return sb.String()
}

func escClassChar(r rune) string {
	switch {
	case r == '\\':
		return `\\`
	case r == '-':
		return `\-`
	case r == '\n':
		return `\n`
	case r == '\r':
		return `\r`
	case r == '\t':
		return `\t`
	case r == ']' || r == '[' || r == '\'':
		return fmt.Sprintf(`\x%02X`, r)
	case r >= 0x20 && r < 0x7f:
		return string(r)
	case r <= 0xff:
		return fmt.Sprintf(`\x%02X`, r)
	case r <= 0xffff:
		return fmt.Sprintf(`\u%04X`, r)
	default:
		return fmt.Sprintf(`\U%08X`, r)
	}
}

func classBody(rs [][2]rune) string {
	var sb strings.Builder
	for _, r := range rs {
		if r[0] == r[1] {
			sb.WriteString(escClassChar(r[0]))
		} else {
			sb.WriteString(escClassChar(r[0]) + "-" + escClassChar(r[1]))
		}
	}
	return sb.String()
}

func cardStr(c int) string {
	return []string{"", "?", "*", "+", "*?", "+?"}[c]
}

func (e *LexExpr) String() string {
	var s string
	switch e.Op {
	case LLit:
		s = "'" + escLit(e.Lit) + "'"
	case LClass:
		s = "[" + classBody(e.Ranges) + "]"
		if e.Neg {
			s = "~" + s
		}
		if len(e.Minus) > 0 {
			s = "(" + s + " - [" + classBody(e.Minus) + "])"
		}
	case LAny:
		s = "."
	case LRef:
		s = e.Ref
	case LSeq:
		parts := make([]string, len(e.Kids))
		for i, k := range e.Kids {
			parts[i] = k.String()
		}
		s = strings.Join(parts, " ")
		if e.Card != COne {
			s = "(" + s + ")"
		}
	case LAlt:
		parts := make([]string, len(e.Kids))
		for i, k := range e.Kids {
			parts[i] = k.String()
		}
		s = "(" + strings.Join(parts, " | ") + ")"
	}
	return s + cardStr(e.Card)
}

func (a LexAction) String() string {
	switch a.Kind {
	case ADiscard:
		return "@discard"
	case APush:
		return "@push_mode(" + a.Arg + ")"
	case APop:
		return "@pop_mode"
	default:
		return "@emit(" + a.Arg + ")"
	}
}

func (r *LexRule) String() string {
	var sb strings.Builder
	switch r.Kind {
	case RTok:
		sb.WriteString(r.Name + " = " + r.Expr.String())
	case RFrag:
		sb.WriteString("@frag " + r.Expr.String())
	case RMacro:
		sb.WriteString("@macro " + r.Name + " = " + r.Expr.String())
	case RExternal:
		sb.WriteString("@external " + strings.Join(r.Names, " "))
	}
	for _, a := range r.Actions {
		sb.WriteString(" " + a.String())
	}
	return sb.String()
}

func (s *Spec) LexerText() string {
	var sb strings.Builder
	sb.WriteString("@lexer\n\n")
	for _, m := range s.Modes {
		ind := ""
		if m.Name != "" {
			fmt.Fprintf(&sb, "@mode %s {\n", m.Name)
			ind = "  "
		}
		for _, r := range m.Rules {
			sb.WriteString(ind + r.String() + "\n")
		}
		if m.Name != "" {
			sb.WriteString("}\n")
		}
		sb.WriteString("\n")
	}
	return sb.String()
}

func (s *Spec) termText(t *Term) string {
	var b string
	switch t.Kind {
	case KTok:
		b = t.Name
		if t.Lit {
			if l := s.LiteralOf(t.Name); l != "" {
				b = "'" + escLit(l) + "'"
			}
		}
	case KRule:
		b = t.Name
	case KErr:
		b = "@error"
	case KList:
		b = "@list(" + s.termText(t.Elem) + ", " + s.termText(t.Sep) + ")"
		if t.ListOpt {
			b += "?"
		}
		return b
	}
	return b + []string{"", "?", "*", "+", "*!"}[t.Card]
}

func (s *Spec) ParserText() string {
	var sb strings.Builder
	if len(s.Rules) == 0 {
		return "" // a lexer-only specification has no @parser section
	}
	sb.WriteString("@parser\n\n")
	for i, r := range s.Rules {
		head := r.Name + " = "
		if i == s.Start {
			head = "@start " + head
		}
		pad := strings.Repeat(" ", len(head)-2)
		for j, p := range r.Prods {
			if j == 0 {
				sb.WriteString(head)
			} else {
				sb.WriteString(pad + "| ")
			}
			if len(p.Terms) == 0 {
				sb.WriteString("@empty")
			} else {
				parts := make([]string, len(p.Terms))
				for k, t := range p.Terms {
					parts[k] = s.termText(t)
				}
				sb.WriteString(strings.Join(parts, " "))
			}
			if p.Qualif != "" {
				sb.WriteString(" " + p.Qualif)
			}
			sb.WriteString("\n")
		}
		sb.WriteString("\n")
	}
	return sb.String()
}

// LoxFiles returns the .lox files of the project (name -> text).
func (s *Spec) LoxFiles() map[string]string {
	if s.TwoFiles && s.SplitLex && len(s.Modes) > 0 && len(s.Modes[0].Rules) >= 2 {
		// three files, two of which declare tokens: the numbering of terminals
		// depends on the order in which lox reads them
		def := s.Modes[0]
		half := len(def.Rules) / 2
		a := &Spec{Modes: []*LexMode{{Rules: def.Rules[:half]}}}
		rest := append([]*LexMode{{Rules: def.Rules[half:]}}, s.Modes[1:]...)
		b := &Spec{Modes: rest}
		return map[string]string{"a_tokens.lox": a.LexerText(), "m_more_tokens.lox": b.LexerText(), "z_parser.lox": s.ParserText()}
	}
	if s.TwoFiles {
		return map[string]string{"a_lexer.lox": s.LexerText(), "b_parser.lox": s.ParserText()}
	}
	return map[string]string{"grammar.lox": s.LexerText() + s.ParserText()}
}
