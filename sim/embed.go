// Package verifsim embeds the runtime sources that are copied into scratch
// copies of dcaiafa/lox.
package verifsim

import "embed"

//go:embed simrt/*.go hrt/*.go specgen/*.go earley/*.go core/*.go runsim/*.go
var FS embed.FS
