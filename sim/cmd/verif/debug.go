package main

import (
	"encoding/json"
	"fmt"
	"os"
	"os/exec"
	"path/filepath"
	"sort"
	"strings"
	"sync"

	"verifsim/core"
	"verifsim/specgen"
	"verifsim/stagea"
	"verifsim/stageb"
)

// debugSpecs: generate n specs, run the plain lox on each, print acceptance
// statistics. Development aid, not a registered check.
func debugSpecs(args []string) {
	n := 40
	rich := "parser"
	if len(args) > 0 {
		fmt.Sscan(args[0], &n)
	}
	if len(args) > 1 {
		rich = args[1]
	}
	t, err := stagea.NewTree("dbg", false)
	if err != nil {
		fmt.Fprintln(os.Stderr, err)
		os.Exit(2)
	}
	defer t.Close()
	seed := core.Seed()
	type res struct {
		i      int
		fam    string
		exit   int
		stderr string
	}
	results := make([]res, n)
	var wg sync.WaitGroup
	sem := make(chan struct{}, 6)
	for i := 0; i < n; i++ {
		wg.Add(1)
		go func(i int) {
			defer wg.Done()
			sem <- struct{}{}
			defer func() { <-sem }()
			opt := specgen.Options{RichParser: rich == "parser" || rich == "both", RichLexer: rich == "lexer" || rich == "both"}
			s := specgen.Generate(core.Derive(seed, "dbg", i), opt)
			dir := filepath.Join(t.WorldRoot(), fmt.Sprintf("p%04d", i))
			stagea.Materialise(dir, s.ProjectFiles(specgen.GoVariant{FileName: "parser.go"}), true)
			r, err := t.Generate(stagea.Invocation{Bin: t.Lox, Dir: dir, CwdMode: "dot"}, "")
			if err != nil {
				results[i] = res{i, s.Family + "/" + s.LexFamily, -2, err.Error()}
				return
			}
			results[i] = res{i, s.Family + "/" + s.LexFamily, r.Exit, string(r.Stderr)}
			if r.Exit != 0 && os.Getenv("DBG_SHOW") != "" {
				fmt.Printf("---- spec %d (%s) exit %d\n%s%s\nstderr: %s\n", i, s.Family, r.Exit, s.LexerText(), s.ParserText(), r.Stderr)
			}
		}(i)
	}
	wg.Wait()
	byFam := map[string][2]int{}
	reasons := map[string]int{}
	for _, r := range results {
		c := byFam[r.fam]
		c[1]++
		if r.exit == 0 {
			c[0]++
		} else {
			line := strings.SplitN(r.stderr, "\n", 2)[0]
			if i := strings.Index(line, ": "); i >= 0 && strings.Contains(line[:i], ".") {
				line = line[i+2:]
			}
			if len(line) > 70 {
				line = line[:70]
			}
			reasons[line]++
		}
		byFam[r.fam] = c
	}
	var fams []string
	for f := range byFam {
		fams = append(fams, f)
	}
	sort.Strings(fams)
	for _, f := range fams {
		fmt.Printf("%-28s accepted %d/%d\n", f, byFam[f][0], byFam[f][1])
	}
	var rs []string
	for r := range reasons {
		rs = append(rs, r)
	}
	sort.Strings(rs)
	for _, r := range rs {
		fmt.Printf("  %4d  %s\n", reasons[r], r)
	}
}

// debugC09: run one hand-written specification (JSON of specgen.Spec) through
// the C09 harness with the given token streams ("a b c" per argument).
func debugC09(args []string) {
	data, err := os.ReadFile(args[0])
	if err != nil {
		fmt.Fprintln(os.Stderr, err)
		os.Exit(2)
	}
	var spec specgen.Spec
	if err := json.Unmarshal(data, &spec); err != nil {
		fmt.Fprintln(os.Stderr, err)
		os.Exit(2)
	}
	spec.Pkg = "g0000"
	fmt.Println(spec.LexerText() + spec.ParserText())
	w, err := stageb.BuildFixed("dbg09", []*specgen.Spec{&spec}, false, false)
	if err != nil {
		fmt.Fprintln(os.Stderr, err)
		os.Exit(2)
	}
	defer w.Close()
	for _, stream := range args[1:] {
		run := map[string]any{"run": map[string]any{"pkg": "g0000", "lexer": "stub", "tokens": strings.Fields(stream)}}
		b, _ := json.Marshal(run)
		rp := filepath.Join(w.T.Base, "r.json")
		os.WriteFile(rp, b, 0o644)
		out := filepath.Join(w.T.Base, "o.json")
		cmd := exec.Command(w.Runsim, "-mode", "c09", "-specs", w.SpecsPath, "-out", out, "-replay", rp)
		cmd.Stderr = os.Stderr
		cmd.Run()
		res, _ := os.ReadFile(out)
		var r struct {
			Violations []struct {
				Sig    map[string]string `json:"sig"`
				Detail string            `json:"detail"`
			} `json:"violations"`
		}
		json.Unmarshal(res, &r)
		if len(r.Violations) == 0 {
			fmt.Printf("stream %q: no violation\n", stream)
		}
		for _, v := range r.Violations {
			fmt.Printf("stream %q: %v\n%s\n", stream, v.Sig, v.Detail)
		}
	}
}
