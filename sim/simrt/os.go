package simrt

import (
	"crypto/sha256"
	"encoding/hex"
	"errors"
	"go/ast"
	goparser "go/parser"
	gotoken "go/token"
	"io/fs"
	"os"
	"path/filepath"
	"syscall"

	"golang.org/x/tools/go/packages"
)

// S2/S3/S4: every wrapper numbers itself (program order over all wrapped
// functions), logs to the sidecar, and consults the fault list.

func sha(b []byte) string {
	h := sha256.Sum256(b)
	return hex.EncodeToString(h[:8])
}

func errnoOf(name string) error {
	switch name {
	case "ENOENT":
		return syscall.ENOENT
	case "EACCES":
		return syscall.EACCES
	case "ENOSPC":
		return syscall.ENOSPC
	case "EROFS":
		return syscall.EROFS
	default:
		return syscall.EIO
	}
}

// enter registers a seam call and returns the fault scheduled for it, if any.
func enter(fn string) (int, *Fault) {
	calls++
	n := calls
	if !active {
		return n, nil
	}
	for i := range op.Faults {
		f := &op.Faults[i]
		if (f.Call != 0 && f.Call == n) || (f.Call == 0 && f.Fn == fn) {
			return n, f
		}
	}
	return n, nil
}

func logCall(n int, fn, path string, ln int, sum string, f *Fault) {
	if !active {
		return
	}
	rec := map[string]any{"n": n, "fn": fn, "path": filepath.Base(path)}
	if ln >= 0 {
		rec["len"] = ln
		rec["sha"] = sum
	}
	if f != nil {
		rec["fault"] = f
	}
	logLine(rec)
}

func crashNow() {
	logLine(map[string]any{"crash": true, "calls": calls})
	os.Exit(ExitSimCrash)
}

func Glob(pattern string) ([]string, error) {
	n, f := enter("filepath.Glob")
	logCall(n, "filepath.Glob", pattern, -1, "", f)
	if f != nil {
		if f.Kind == "crash" {
			crashNow()
		}
		// filepath.Glob ignores I/O errors: an unreadable directory yields no
		// matches and a nil error. That is what the fault models.
		return nil, nil
	}
	return filepath.Glob(pattern)
}

func ReadFile(name string) ([]byte, error) {
	n, f := enter("os.ReadFile")
	logCall(n, "os.ReadFile", name, -1, "", f)
	if f != nil {
		if f.Kind == "crash" {
			crashNow()
		}
		return nil, &fs.PathError{Op: "open", Path: name, Err: errnoOf(f.Errno)}
	}
	return os.ReadFile(name)
}

func ReadDir(name string) ([]os.DirEntry, error) {
	n, f := enter("os.ReadDir")
	logCall(n, "os.ReadDir", name, -1, "", f)
	if f != nil {
		if f.Kind == "crash" {
			crashNow()
		}
		return nil, &fs.PathError{Op: "open", Path: name, Err: errnoOf(f.Errno)}
	}
	return os.ReadDir(name)
}

func ParseFile(fset *gotoken.FileSet, filename string, src any, mode goparser.Mode) (*ast.File, error) {
	n, f := enter("parser.ParseFile")
	logCall(n, "parser.ParseFile", filename, -1, "", f)
	if f != nil {
		if f.Kind == "crash" {
			crashNow()
		}
		return nil, &fs.PathError{Op: "open", Path: filename, Err: errnoOf(f.Errno)}
	}
	return goparser.ParseFile(fset, filename, src, mode)
}

func prefixLen(total, pct int) int {
	if pct < 0 {
		pct = 0
	}
	if pct > 100 {
		pct = 100
	}
	return total * pct / 100
}

func WriteFile(name string, data []byte, perm os.FileMode) error {
	n, f := enter("os.WriteFile")
	logCall(n, "os.WriteFile", name, len(data), sha(data), f)
	if f != nil {
		switch f.Kind {
		case "crash":
			switch f.Torn {
			case "trunc0":
				os.WriteFile(name, nil, perm)
			case "prefix":
				os.WriteFile(name, data[:prefixLen(len(data), f.Pct)], perm)
			case "full":
				os.WriteFile(name, data, perm)
			}
			crashNow()
		default:
			if f.Short {
				// open(O_TRUNC) succeeded, write(2) failed part-way.
				os.WriteFile(name, data[:prefixLen(len(data), f.Pct)], perm)
				return &fs.PathError{Op: "write", Path: name, Err: errnoOf(f.Errno)}
			}
			return &fs.PathError{Op: "open", Path: name, Err: errnoOf(f.Errno)}
		}
	}
	return os.WriteFile(name, data, perm)
}

// Abs and Getwd are seams (they are counted and logged) but are never faulted:
// the property quantifies over inputs and packages, not over a deleted
// working directory.
func Abs(path string) (string, error) {
	n, _ := enter("filepath.Abs")
	logCall(n, "filepath.Abs", path, -1, "", nil)
	return filepath.Abs(path)
}

func Getwd() (string, error) {
	return os.Getwd()
}

func Load(cfg *packages.Config, patterns ...string) ([]*packages.Package, error) {
	n, f := enter("packages.Load")
	logCall(n, "packages.Load", cfg.Dir, -1, "", f)
	if f != nil {
		if f.Kind == "crash" {
			crashNow()
		}
		if f.Kind == "empty" {
			// what go/packages returns when `go list` has nothing to load
			// (observed for a directory outside any module)
			return nil, nil
		}
		return nil, errors.New("go list: injected failure (simulated)")
	}
	return packages.Load(cfg, patterns...)
}
