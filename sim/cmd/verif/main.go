// verif is the entry point of every registered check:
//
//	verif <ID> [--tier quick|thorough] [--replay file]
//
// Exit status: 0 the property held on everything explored; 1 at least one
// VIOLATION line was printed; 2 trouble of the machinery itself.
package main

import (
	"errors"
	"flag"
	"fmt"
	"os"

	"verifsim/core"
	"verifsim/stagea"
	"verifsim/stageb"
)

func main() {
	if len(os.Args) < 2 {
		fmt.Fprintln(os.Stderr, "usage: verif <ID> [--tier quick|thorough] [--replay file]")
		os.Exit(2)
	}
	id := os.Args[1]
	if id == "debug-family" {
		var idx, n int
		fmt.Sscan(os.Args[2], &idx)
		fmt.Sscan(os.Args[3], &n)
		if err := stagea.DebugFamily(core.Seed(), idx, n); err != nil {
			fmt.Fprintln(os.Stderr, err)
			os.Exit(2)
		}
		return
	}
	if id == "debug-c09" {
		debugC09(os.Args[2:])
		return
	}
	if id == "debug-specs" {
		debugSpecs(os.Args[2:])
		return
	}
	fs := flag.NewFlagSet("verif", flag.ExitOnError)
	tier := fs.String("tier", "", "quick or thorough")
	replay := fs.String("replay", "", "replay file")
	fs.Parse(os.Args[2:])
	if *tier == "" {
		*tier = os.Getenv("VERIF_TIER")
	}
	if *tier == "" {
		*tier = "quick"
	}
	if *tier != "quick" && *tier != "thorough" {
		fmt.Fprintln(os.Stderr, "bad tier")
		os.Exit(2)
	}
	seed := core.Seed()
	fmt.Printf("verif %s tier=%s VERIF_SEED=%d repo=%s\n", id, *tier, seed, stagea.RepoDir())
	rep, err := core.NewReporter(id, *tier, seed)
	if err != nil {
		fmt.Fprintf(os.Stderr, "infrastructure: %v\n", err)
		os.Exit(2)
	}
	var ev *core.Evidence
	if *replay != "" {
		code := 2
		switch id {
		case "C13":
			code, err = stagea.ReplayC13(*replay, rep)
		case "C12":
			code, err = stagea.ReplayC12(*replay, rep)
		case "C09", "C11", "C18":
			code, err = stageb.ReplayB(id, *replay, rep)
		case "C14":
			// every C14 case is a deterministic regeneration of a directory of
			// the tree itself: replaying is re-running the (35 s) check
			rep.ReplayPath = *replay
			_, err = stagea.CheckC14(*tier, seed, rep)
			code = rep.ExitCode()
		default:
			fmt.Fprintf(os.Stderr, "replay not supported for %s\n", id)
		}
		if err != nil {
			fmt.Fprintf(os.Stderr, "infrastructure: %v\n", err)
			os.Exit(2)
		}
		os.Exit(code)
	}
	rep.CleanReplays()
	switch id {
	case "C14":
		ev, err = stagea.CheckC14(*tier, seed, rep)
	case "C13":
		ev, err = stagea.CheckC13(*tier, seed, rep)
	case "C12":
		ev, err = stagea.CheckC12(*tier, seed, rep)
	case "C09":
		ev, err = stageb.CheckC09(*tier, seed, rep)
	case "C11":
		ev, err = stageb.CheckC11(*tier, seed, rep)
	case "C18":
		ev, err = stageb.CheckC18(*tier, seed, rep)
	default:
		fmt.Fprintf(os.Stderr, "unknown check %q\n", id)
		os.Exit(2)
	}
	if err != nil {
		var ie *stagea.InfraError
		if errors.As(err, &ie) {
			fmt.Fprintf(os.Stderr, "infrastructure: %v\n", err)
		} else {
			fmt.Fprintf(os.Stderr, "error: %v\n", err)
		}
		os.Exit(2)
	}
	if ev != nil {
		ev.Violations = len(rep.Violations)
		if err := ev.Write(); err != nil {
			fmt.Fprintf(os.Stderr, "infrastructure: cannot write evidence: %v\n", err)
			os.Exit(2)
		}
		fmt.Printf("%s: evaluations=%v distinct=%v violations=%d known=%v wall=%.1fs\n", id,
			ev.Coverage["evaluations"], ev.Coverage["distinct_nontrivial"], len(rep.Violations), rep.KnownHits, ev.WallS)
	}
	os.Exit(rep.ExitCode())
}
