package hrt

import (
	"fmt"
	"os"
	"runtime"
	"runtime/debug"
	"strings"
	"time"
)

// Controlled is set before any task goroutine is started and never changed
// while tasks run. When false (free-running configuration under the race
// detector) Tick does nothing, so that the harness adds no synchronisation.
var Controlled bool

// BudgetExceeded is the sentinel panic with which a task that ran out of
// ticks is unwound: the deterministic "did not terminate" verdict.
type BudgetExceeded struct {
	Site  string
	Ticks int64
}

// Abort is the sentinel panic of an oracle that stops a run from inside a seam
// (the C11 monitor).
type Abort struct {
	Class  string
	Detail string
}

type Task struct {
	ID       int
	Ticks    int64
	Budget   int64
	LastSite string
	quantum  int
	resume   chan struct{}
	done     bool
	Verdict  Verdict
	Enters   map[string]int // function-entry counts of generated functions (pass P4)
}

type Verdict struct {
	Kind   string // ok | budget | panic | abort
	Site   string // last tick site (innermost instrumented function) for budget; innermost generated function for panic
	Detail string
	Ticks  int64
}

func (v Verdict) String() string {
	if v.Kind == "ok" {
		return "ok"
	}
	return fmt.Sprintf("%s@%s:%s", v.Kind, siteFn(v.Site), v.Detail)
}

// siteFn strips the per-site counter: "parser:_recover:7" -> "parser:_recover".
func siteFn(site string) string {
	if i := strings.LastIndex(site, ":"); i > 0 && strings.Count(site, ":") >= 2 && !strings.HasPrefix(site, "seam:") {
		return site[:i]
	}
	return site
}

func SiteFn(site string) string { return siteFn(site) }

// HeapLimit is the second half of the liveness budget: a task that loops and
// allocates on every iteration (a parser stack that only grows) exhausts the
// machine long before a tick budget of billions runs out. Checked once per 2^20
// ticks of a task; exceeding it ends the task like an exhausted tick budget.
// Ordinary runs of the harness stay below a tenth of it.
var HeapLimit uint64 = 3 << 30

func heapOver() bool {
	var m runtime.MemStats
	runtime.ReadMemStats(&m)
	if m.HeapAlloc <= HeapLimit {
		return false
	}
	// garbage of a task that was stopped earlier does not count
	runtime.GC()
	runtime.ReadMemStats(&m)
	return m.HeapAlloc > HeapLimit
}

// StartMemWatchdog is the backstop for code that runs without ticks (the
// free-running configuration): the process ends with status 3 (trouble of the
// harness, never a verdict) before the machine runs out of memory.
func StartMemWatchdog(limit uint64) {
	go func() {
		for {
			time.Sleep(500 * time.Millisecond)
			var m runtime.MemStats
			runtime.ReadMemStats(&m)
			if m.HeapAlloc > limit {
				fmt.Fprintf(os.Stderr, "harness memory watchdog: heap %d MB exceeds %d MB\n", m.HeapAlloc>>20, limit>>20)
				os.Exit(3)
			}
		}
	}()
}

var (
	cur     *Task
	multi   bool
	yieldCh chan struct{}
)

// Tick is inserted by pass P4 at every function entry and loop head of the
// generated files, and called by every harness seam. It counts (liveness
// budget) and, under the cooperative scheduler, is the only place where a task
// can be preempted.
func Tick(site string) {
	if !Controlled {
		return
	}
	t := cur
	if t == nil {
		return
	}
	t.Ticks++
	t.LastSite = site
	if t.Ticks > t.Budget || (t.Ticks&(1<<20-1) == 0 && heapOver()) {
		panic(&BudgetExceeded{Site: site, Ticks: t.Ticks})
	}
	if multi {
		t.quantum--
		if t.quantum <= 0 {
			yieldCh <- struct{}{}
			<-t.resume
		}
	}
}

// TickLeaf is Tick for leaf helpers (_Find): it counts and can preempt, but
// leaves the "last site" of the task on the caller.
func TickLeaf(site string) {
	if !Controlled {
		return
	}
	t := cur
	if t == nil {
		return
	}
	t.Ticks++
	if t.Ticks > t.Budget || (t.Ticks&(1<<20-1) == 0 && heapOver()) {
		at := t.LastSite
		if at == "" {
			at = site
		}
		panic(&BudgetExceeded{Site: at, Ticks: t.Ticks})
	}
	if multi {
		t.quantum--
		if t.quantum <= 0 {
			yieldCh <- struct{}{}
			<-t.resume
		}
	}
}

// Enter is inserted by pass P4 as the first statement of every generated
// function that has a body worth scheduling: a Tick plus an entry count.
func Enter(fn string) {
	if !Controlled {
		return
	}
	if t := cur; t != nil {
		if t.Enters == nil {
			t.Enters = map[string]int{}
		}
		t.Enters[fn]++
	}
	Tick(fn)
}

// Entered reports how often the running task entered the generated function.
func Entered(fn string) int {
	if t := cur; t != nil && Controlled {
		return t.Enters[fn]
	}
	return -1
}

func capture(t *Task, r any) {
	switch v := r.(type) {
	case nil:
		t.Verdict = Verdict{Kind: "ok", Ticks: t.Ticks}
	case *BudgetExceeded:
		t.Verdict = Verdict{Kind: "budget", Site: v.Site, Ticks: v.Ticks}
	case *Abort:
		t.Verdict = Verdict{Kind: "abort", Site: v.Class, Detail: v.Detail, Ticks: t.Ticks}
	default:
		st := string(debug.Stack())
		fn := ""
		for _, line := range strings.Split(st, "\n") {
			if strings.Contains(line, "/zzverif/g/") && !strings.HasPrefix(line, "\t") {
				fn = line
				if i := strings.LastIndex(fn, "/"); i >= 0 {
					fn = fn[i+1:]
				}
				// drop the package qualifier: the function, not which grammar
				if i := strings.Index(fn, "."); i >= 0 {
					fn = fn[i+1:]
				}
				if i := strings.Index(fn, "("); i > 0 && !strings.HasPrefix(fn[i:], "(*") {
					fn = fn[:i]
				} else if j := strings.LastIndex(fn, "("); j > 0 {
					fn = fn[:j]
				}
				break
			}
		}
		msg := fmt.Sprint(r)
		t.Verdict = Verdict{Kind: "panic", Site: fn, Detail: msg, Ticks: t.Ticks}
	}
}

// RunSolo runs f as the only task, inline.
func RunSolo(budget int64, f func()) Verdict {
	t := &Task{Budget: budget}
	prevC, prevCur, prevMulti := Controlled, cur, multi
	Controlled, cur, multi = true, t, false
	func() {
		defer func() { capture(t, recover()) }()
		f()
	}()
	Controlled, cur, multi = prevC, prevCur, prevMulti
	return t.Verdict
}

// Step is one scheduling decision: task i runs for q ticks (or until done).
type Step struct {
	Task    int `json:"t"`
	Quantum int `json:"q"`
}

// maxSwitches bounds the fine-grained part of one concurrent phase.
const maxSwitches = 1 << 21

// RunConcurrent runs the tasks as real goroutines of which exactly one is
// released at a time. choose is called with the runnable task indices and
// returns the next step; atSwitch (optional) runs between steps, with no task
// running.
func RunConcurrent(fs []func(), budgets []int64, choose func(runnable []int) Step, atSwitch func(step int)) ([]Verdict, []Step) {
	n := len(fs)
	tasks := make([]*Task, n)
	yieldCh = make(chan struct{})
	Controlled, multi = true, true
	for i := range fs {
		t := &Task{ID: i, Budget: budgets[i], resume: make(chan struct{})}
		tasks[i] = t
		go func(t *Task, f func()) {
			<-t.resume
			func() {
				defer func() { capture(t, recover()) }()
				f()
			}()
			t.done = true
			yieldCh <- struct{}{}
		}(t, fs[i])
	}
	var trace []Step
	for {
		var runnable []int
		for i, t := range tasks {
			if !t.done {
				runnable = append(runnable, i)
			}
		}
		if len(runnable) == 0 {
			break
		}
		st := choose(runnable)
		if st.Quantum < 1 {
			st.Quantum = 1
		}
		if len(trace) >= maxSwitches {
			// a task that loops until its tick budget (up to billions of
			// ticks) must not grow the trace without bound: from here on every
			// chosen task runs to completion or to its budget
			st.Quantum = 1 << 30
		}
		trace = append(trace, st)
		t := tasks[st.Task]
		t.quantum = st.Quantum
		cur = t
		t.resume <- struct{}{}
		<-yieldCh
		cur = nil
		if atSwitch != nil {
			atSwitch(len(trace))
		}
	}
	Controlled, multi, cur = false, false, nil
	out := make([]Verdict, n)
	for i, t := range tasks {
		out[i] = t.Verdict
	}
	return out, trace
}

// RunFree runs the tasks on free-running goroutines (race-detector
// configuration): no scheduler, no ticks, no synchronisation except the final
// join.
func RunFree(fs []func()) []Verdict {
	Controlled, multi, cur = false, false, nil
	out := make([]Verdict, len(fs))
	done := make(chan int, len(fs))
	for i := range fs {
		go func(i int) {
			t := &Task{}
			func() {
				defer func() { capture(t, recover()) }()
				fs[i]()
			}()
			out[i] = t.Verdict
			done <- i
		}(i)
	}
	for range fs {
		<-done
	}
	return out
}
