package specgen

import (
	"fmt"
	"sort"
	"strings"
)

// TypeNames tells the printers how the Go types are spelled.
type TypeNames struct {
	Token string
	Error string
	Node  []string // per Rule.Ret
}

func (s *Spec) termType(t *Term, tn *TypeNames) string {
	base := func(t *Term) string {
		switch t.Kind {
		case KTok:
			return tn.Token
		case KErr:
			return tn.Error
		case KRule:
			r := s.RuleByName(t.Name)
			if r == nil {
				return tn.Node[0]
			}
			return tn.Node[r.Ret%len(tn.Node)]
		}
		return "any"
	}
	if t.Kind == KList {
		return "[]" + base(t.Elem)
	}
	switch t.Card {
	case Star, Plus, StarF:
		return "[]" + base(t)
	}
	return base(t)
}

type Method struct {
	Rule     string
	Name     string
	Params   []string // Go types
	Ret      string
	ListSeps []string // per parameter: separator token name when the term is a @list, else ""
}

// Methods returns one action method per (rule, distinct parameter list): two
// productions with the same parameter types must share a method, otherwise lox
// reports "multiple action methods matching production".
func (s *Spec) Methods(tn *TypeNames) []Method {
	var out []Method
	for _, r := range s.Rules {
		seen := map[string]bool{}
		n := 0
		for _, p := range r.Prods {
			params := make([]string, len(p.Terms))
			seps := make([]string, len(p.Terms))
			for i, t := range p.Terms {
				params[i] = s.termType(t, tn)
				if t.Kind == KList && t.Sep.Kind == KTok {
					seps[i] = t.Sep.Name
				}
			}
			key := strings.Join(params, ",")
			if seen[key] {
				continue
			}
			seen[key] = true
			name := "on_" + r.Name
			if n > 0 || len(r.Prods) > 1 {
				name = fmt.Sprintf("on_%s__%d", r.Name, n)
			}
			n++
			out = append(out, Method{Rule: r.Name, Name: name, Params: params, Ret: tn.Node[r.Ret%len(tn.Node)], ListSeps: seps})
		}
	}
	return out
}

// GoVariant describes the user's Go package around the grammar (Stage A).
type GoVariant struct {
	// MixedAny: the action methods of rules whose Go type is `any` are spelled
	// alternately `any` and `interface{}` (identical types), the latter in a
	// second file: a legal package whose output must not depend on the order in
	// which the files were parsed.
	MixedAny  bool
	FileName  string // main user file; "parser.go" sorts after base.gen.go, "ast.go" before
	SplitFile string // if non-empty, action methods go to this second file
	Defect    string // "" or one of the C12 package defects
}

var stageATypes = &TypeNames{Token: "Token", Error: "Error", Node: []string{"*Node", "*bytes.Buffer", "*strings.Builder", "*yaml.Node",
	"<-chan *Node", "map[string][]*Node", "any"}}

// GoStageA prints the Go sources of a project for the generator-side
// simulation: enough for lox to bind actions; bodies are empty.
func (s *Spec) GoStageA(v GoVariant) map[string]string {
	files := map[string]string{}
	if v.Defect == "no-go-file" {
		return files
	}
	if v.Defect == "empty-go-file" {
		files[v.FileName] = ""
		return files
	}
	var head, body, mixed strings.Builder
	imports := "import (\n\t\"bytes\"\n\t\"strings\"\n\n\t\"github.com/dcaiafa/loxlex/simplelexer\"\n\t\"gopkg.in/yaml.v3\"\n)\n\n"
	fmt.Fprintf(&head, "package %s\n\n%s", s.Pkg, imports)
	head.WriteString("var _ bytes.Buffer\nvar _ strings.Builder\nvar _ simplelexer.Token\nvar _ yaml.Node\n\n")
	if v.Defect != "no-token" {
		head.WriteString("type Token = simplelexer.Token\n\n")
	}
	head.WriteString("type Node struct{ Kids []any }\n\nfunc (n *Node) Discard() bool { return false }\n\ntype Noder interface{ Discard() bool }\n\n")
	switch v.Defect {
	case "no-parser-struct":
		head.WriteString("type parserImpl struct{ x int }\n\n")
	case "two-parser-structs":
		head.WriteString("type parserImpl struct{ lox }\n\ntype otherParser struct{ lox }\n\n")
	case "generic-parser-struct":
		head.WriteString("type parserImpl[T any] struct {\n\tlox\n\tv T\n}\n\n")
	case "ptr-embedded-lox":
		head.WriteString("type parserImpl struct {\n\t*lox\n\tcount int\n}\n\n")
	default:
		head.WriteString("type parserImpl struct {\n\tlox\n\tcount int\n}\n\n")
	}
	if s.Pkg == "main" {
		head.WriteString("func main() {}\n\n")
	}
	recv := "(p *parserImpl)"
	if v.Defect == "generic-parser-struct" {
		recv = "(p *parserImpl[T])"
	}
	if v.Defect == "value-receiver" {
		recv = "(p parserImpl)"
	}
	// rule with at least two action methods returning *Node (for the
	// interface/concrete return-type variants)
	ifaceRule := ""
	{
		count := map[string]int{}
		for _, m := range s.Methods(stageATypes) {
			if m.Ret == "*Node" {
				count[m.Rule]++
			}
		}
		for _, r := range s.Rules {
			if count[r.Name] >= 2 {
				ifaceRule = r.Name
				break
			}
		}
	}
	nthOfRule := map[string]int{}
	ms := s.Methods(stageATypes)
	for i, m := range ms {
		params := make([]string, len(m.Params))
		for j, t := range m.Params {
			params[j] = fmt.Sprintf("a%d %s", j, t)
		}
		ret := m.Ret
		nth := nthOfRule[m.Rule]
		nthOfRule[m.Rule]++
		if m.Rule == ifaceRule {
			switch {
			case v.Defect == "iface-return-first" && nth == 0:
				ret = "Noder"
			case v.Defect == "iface-return-last" && nth > 0:
				ret = "Noder"
			case v.Defect == "any-return-first" && nth == 0:
				ret = "any"
			}
		}
		if v.Defect == "any-param" && i == 0 && len(params) > 0 {
			params[0] = "a0 any"
		}
		switch {
		case v.Defect == "arity-mismatch" && i == len(ms)-1:
			params = append(params, "extra Token")
		case v.Defect == "return-mismatch" && i == len(ms)-1:
			ret = "int"
		case v.Defect == "two-results" && i == len(ms)-1:
			ret = "(" + m.Ret + ", error)"
		}
		zero := "nil"
		if ret == "int" {
			zero = "0"
		}
		if strings.HasPrefix(ret, "(") {
			zero = "nil, nil"
		}
		if v.MixedAny && m.Ret == "any" && nth%2 == 1 && v.Defect == "" {
			// same type, other spelling, other file
			fmt.Fprintf(&mixed, "func %s %s(%s) interface{} { return nil }\n\n", recv, m.Name, strings.Join(params, ", "))
			continue
		}
		fmt.Fprintf(&body, "func %s %s(%s) %s { return %s }\n\n", recv, m.Name, strings.Join(params, ", "), ret, zero)
	}
	if v.Defect == "aliases" {
		// legal: the parser struct, the token type and a node type are also known under alias names
		body.WriteString("type Parser = parserImpl\n\ntype Tok = Token\n\ntype NodePtr = *Node\n\nvar _ Parser\nvar _ Tok\nvar _ NodePtr\n\n")
	}
	if v.Defect == "extra-methods" {
		fmt.Fprintf(&body, "func %s helper(a Token) *Node { return nil }\n\nfunc %s On_notAnAction(a Token) (int, error) { return 0, nil }\n\nfunc (n *Node) on_top(a Token) *Node { return nil }\n\n", recv, recv)
	}
	if v.Defect == "orphan-method" {
		fmt.Fprintf(&body, "func %s on_nosuchrule(a Token) *Node { return nil }\n\n", recv)
	}
	if v.Defect == "missing-method" && len(ms) > 0 {
		// drop the last method
		txt := body.String()
		idx := strings.LastIndex(strings.TrimRight(txt, "\n"), "\nfunc ")
		if idx >= 0 {
			body.Reset()
			body.WriteString(txt[:idx+1])
		}
	}
	if v.Defect == "embed-missing-file" {
		// go list reports a ListError (pattern matches no files); the sources parse and type-check
		body.WriteString("//go:embed no_such_help_file.txt\nvar helpText string\n\n")
		head.WriteString("import _ \"embed\"\n\n")
	}
	if v.Defect == "ill-typed" {
		body.WriteString("func illTyped() int { return \"not an int\" + undefinedName }\n\n")
	}
	if v.Defect == "syntax-error" {
		body.WriteString("func broken( {\n")
	}
	if s.OnBounds {
		fmt.Fprintf(&body, "func %s _onBounds(r any, begin, end Token) { }\n\n", recv)
	}
	switch v.Defect {
	case "bad-build-constraint":
		files["zz_constraint.go"] = "//go:build !(\n\npackage " + s.Pkg + "\n"
	case "junk-last-go-file":
		files["zz_notes.go"] = "TODO: remember to write the actions\n"
	case "empty-last-go-file":
		files["zz_notes.go"] = ""
	}
	if mixed.Len() > 0 {
		// sorts before and after the main file in different variants
		name := "a_more_actions.go"
		if v.FileName < "b" {
			name = "z_more_actions.go"
		}
		files[name] = fmt.Sprintf("package %s\n\n%s", s.Pkg, "import (\n\t\"bytes\"\n\t\"strings\"\n\n\t\"gopkg.in/yaml.v3\"\n)\n\nvar _ bytes.Buffer\nvar _ strings.Builder\nvar _ yaml.Node\n\n") + mixed.String()
	}
	if v.SplitFile != "" {
		files[v.FileName] = head.String()
		files[v.SplitFile] = fmt.Sprintf("package %s\n\n%s", s.Pkg, "import (\n\t\"bytes\"\n\t\"strings\"\n\n\t\"gopkg.in/yaml.v3\"\n)\n\nvar _ bytes.Buffer\nvar _ strings.Builder\nvar _ yaml.Node\n\n") + body.String()
	} else {
		files[v.FileName] = head.String() + body.String()
	}
	return files
}

// ProjectFiles returns every file of a Stage A project.
func (s *Spec) ProjectFiles(v GoVariant) map[string]string {
	files := s.GoStageA(v)
	for n, t := range s.LoxFiles() {
		files[n] = t
	}
	return files
}

func SortedNames(m map[string]string) []string {
	ns := make([]string, 0, len(m))
	for n := range m {
		ns = append(ns, n)
	}
	sort.Strings(ns)
	return ns
}

// NormalizeLists removes productions whose parameter types equal those of an
// earlier production of the same rule while their @list positions or
// separators differ: both would have to share one action method, and the
// harness could then not tell where the separators (which lox drops from the
// list value) were consumed.
func (s *Spec) NormalizeLists() {
	tn := stageBTypes
	for _, r := range s.Rules {
		seen := map[string]string{}
		var kept []*Prod
		for _, p := range r.Prods {
			params := make([]string, len(p.Terms))
			seps := make([]string, len(p.Terms))
			for i, t := range p.Terms {
				params[i] = s.termType(t, tn)
				if t.Kind == KList {
					seps[i] = "L:" + t.Sep.Name
				}
			}
			key, sk := strings.Join(params, ","), strings.Join(seps, ",")
			if prev, ok := seen[key]; ok && prev != sk {
				continue
			}
			seen[key] = sk
			kept = append(kept, p)
		}
		r.Prods = kept
	}
}

// ForceMixableAny gives the Go type `any` (node kind 6) to a rule that has two
// or more action methods and is consumed under a cardinality or in a @list by
// another rule, so that GoVariant.MixedAny has something to mix and the type of
// a generated rule ([]T, T?) is derived from it. It reports whether such a rule
// exists.
func (s *Spec) ForceMixableAny() bool {
	ref := map[string]bool{}
	for _, r := range s.Rules {
		for _, p := range r.Prods {
			for _, tt := range p.Terms {
				if tt.Kind == KRule && tt.Name != r.Name && tt.Card != One {
					ref[tt.Name] = true
				}
				if tt.Kind == KList && tt.Elem.Kind == KRule {
					ref[tt.Elem.Name] = true
				}
			}
		}
	}
	cnt := map[string]int{}
	for _, m := range s.Methods(stageATypes) {
		cnt[m.Rule]++
	}
	for ri, r := range s.Rules {
		if ri != s.Start && ref[r.Name] && cnt[r.Name] >= 2 {
			r.Ret = 6
			return true
		}
	}
	return false
}
