// Package stagea is the generator-side simulation (gen-sim): worlds,
// operations and oracles for C12, C13 and C14. Every generation is one OS
// process.
package stagea

import (
	"bytes"
	"encoding/json"
	"fmt"
	"io/fs"
	"os"
	"os/exec"
	"path/filepath"
	"strings"
	"time"

	"verifsim"
	"verifsim/instr"
)

// InfraError is trouble of the machinery itself: exit status 2, never a
// violation.
type InfraError struct{ Msg string }

func (e *InfraError) Error() string { return e.Msg }

func Infra(format string, a ...any) error { return &InfraError{fmt.Sprintf(format, a...)} }

func RepoDir() string {
	if r := os.Getenv("VERIF_REPO"); r != "" {
		return r
	}
	return "/repo"
}

func GoEnv() []string {
	e := os.Environ()
	e = append(e, "GOFLAGS=-mod=mod", "GOPROXY=off", "GOSUMDB=off", "GOTOOLCHAIN=local")
	return e
}

// Tree is a scratch copy of the repository's current working tree on tmpfs:
// plain/ is the copy as is (project directories live inside it so that
// `go list` resolves lox's dependencies), inst/ is the instrumented copy from
// which lox-sim is built.
type Tree struct {
	Base   string
	Plain  string
	Inst   string
	Lox    string // uninstrumented binary built from Plain
	LoxSim string // instrumented binary built from Inst
	Instr  *instr.Report
}

func run(dir string, env []string, name string, args ...string) ([]byte, error) {
	cmd := exec.Command(name, args...)
	cmd.Dir = dir
	cmd.Env = env
	out, err := cmd.CombinedOutput()
	return out, err
}

func scratchBase() string {
	if st, err := os.Stat("/dev/shm"); err == nil && st.IsDir() {
		return "/dev/shm"
	}
	return os.TempDir()
}

// NewTree copies the repository, builds lox, instruments the copy and builds
// lox-sim. needSim=false skips the instrumented half.
func NewTree(id string, needSim bool) (*Tree, error) {
	base, err := os.MkdirTemp(scratchBase(), "verif-"+id+"-")
	if err != nil {
		return nil, Infra("mkdir scratch: %v", err)
	}
	t := &Tree{Base: base, Plain: filepath.Join(base, "plain"), Inst: filepath.Join(base, "inst")}
	if err := os.MkdirAll(filepath.Join(base, "bin"), 0o755); err != nil {
		return nil, Infra("%v", err)
	}
	if out, err := run("/", nil, "rsync", "-a", "--exclude=.git", RepoDir()+"/", t.Plain+"/"); err != nil {
		t.Close()
		return nil, Infra("rsync: %v: %s", err, out)
	}
	t.Lox = filepath.Join(base, "bin", "lox")
	if out, err := run(t.Plain, GoEnv(), "go", "build", "-o", t.Lox, "./cmd/lox"); err != nil {
		t.Close()
		return nil, Infra("lox does not build from the current tree (precondition): %v\n%s", err, out)
	}
	if !needSim {
		return t, nil
	}
	if out, err := run("/", nil, "rsync", "-a", t.Plain+"/", t.Inst+"/"); err != nil {
		t.Close()
		return nil, Infra("rsync: %v: %s", err, out)
	}
	if err := CopyEmbedded("simrt", filepath.Join(t.Inst, "internal/zzverif/simrt")); err != nil {
		t.Close()
		return nil, Infra("copy simrt: %v", err)
	}
	rep, err := instr.InstrumentLox(t.Inst)
	if err != nil {
		t.Close()
		return nil, Infra("instrumenter: %v", err)
	}
	t.Instr = rep
	t.LoxSim = filepath.Join(base, "bin", "lox-sim")
	if out, err := run(t.Inst, GoEnv(), "go", "build", "-o", t.LoxSim, "./cmd/lox"); err != nil {
		t.Close()
		return nil, Infra("instrumented lox does not build: %v\n%s", err, out)
	}
	return t, nil
}

func (t *Tree) Close() {
	if os.Getenv("VERIF_KEEP") != "" {
		fmt.Fprintf(os.Stderr, "keeping scratch tree %s\n", t.Base)
		return
	}
	os.RemoveAll(t.Base)
}

func CopyEmbedded(sub, dst string) error {
	if err := os.MkdirAll(dst, 0o755); err != nil {
		return err
	}
	ents, err := fs.ReadDir(verifsim.FS, sub)
	if err != nil {
		return err
	}
	for _, e := range ents {
		data, err := verifsim.FS.ReadFile(sub + "/" + e.Name())
		if err != nil {
			return err
		}
		if strings.HasSuffix(e.Name(), "_test.go") {
			continue
		}
		if err := os.WriteFile(filepath.Join(dst, e.Name()), data, 0o644); err != nil {
			return err
		}
	}
	return nil
}

// ---------------------------------------------------------------------------
// One generation = one OS process.

var GenFiles = []string{"base.gen.go", "lexer.gen.go", "parser.gen.go"}

type SideEvent struct {
	N      int             `json:"n,omitempty"`
	Fn     string          `json:"fn,omitempty"`
	Path   string          `json:"path,omitempty"`
	Len    *int            `json:"len,omitempty"`
	Sha    string          `json:"sha,omitempty"`
	Fault  json.RawMessage `json:"fault,omitempty"`
	P1     string          `json:"p1,omitempty"`
	Ties   int             `json:"ties,omitempty"`
	Exit   *int            `json:"exit,omitempty"`
	Ticks  int64           `json:"ticks,omitempty"`
	Calls  int             `json:"calls,omitempty"`
	Crash  bool            `json:"crash,omitempty"`
	Budget bool            `json:"budget,omitempty"`
}

type GenResult struct {
	Exit     int
	TimedOut bool
	Touched  map[string]bool // generated files created or modified by this process (observed on the directory)
	Stdout   []byte
	Stderr   []byte
	Side     []SideEvent
	Files    map[string][]byte // generated files present in the directory afterwards
	Wall     time.Duration
}

// Written returns, for files this process passed to os.WriteFile without an
// injected fault, the sha the wrapper logged (lox-sim only).
func (r *GenResult) Written() map[string]string {
	w := map[string]string{}
	for _, e := range r.Side {
		if e.Fn == "os.WriteFile" && e.Fault == nil {
			w[e.Path] = e.Sha
		}
	}
	return w
}

func (r *GenResult) Calls() []SideEvent {
	var c []SideEvent
	for _, e := range r.Side {
		if e.N > 0 {
			c = append(c, e)
		}
	}
	return c
}

func (r *GenResult) Ticks() int64 {
	for _, e := range r.Side {
		if e.Exit != nil || e.Budget {
			return e.Ticks
		}
	}
	return 0
}

func (r *GenResult) P1Sites() []string {
	var s []string
	for _, e := range r.Side {
		if e.P1 != "" {
			s = append(s, e.P1)
		}
	}
	return s
}

func (r *GenResult) TiesSeen() int {
	n := 0
	for _, e := range r.Side {
		if e.P1 != "" {
			n += e.Ties
		}
	}
	return n
}

type Invocation struct {
	Bin     string // t.Lox or t.LoxSim
	Dir     string // absolute project directory
	CwdMode string // dot | rel | relslash | abs | absslash
	Report  bool
	Op      *OpDesc // nil for the plain binary
	Timeout time.Duration
}

// OpDesc mirrors simrt.OpDesc (the runtime is not imported here on purpose:
// the coordinator is never linked with lox).
type OpDesc struct {
	Run     string  `json:"run"`
	Op      int     `json:"op"`
	Map     MapCfg  `json:"map"`
	Faults  []Fault `json:"faults"`
	Ticks   int64   `json:"ticks"`
	Sidecar string  `json:"sidecar"`
	// ClockSkewHours shifts simrt.Now, the replacement of time.Now.
	ClockSkewHours int `json:"clock_skew_hours"`
}
type MapCfg struct {
	Mode string `json:"mode"`
	Seed uint64 `json:"seed"`
}
type Fault struct {
	Call  int    `json:"call,omitempty"`
	Fn    string `json:"fn,omitempty"`
	Kind  string `json:"kind"`
	Torn  string `json:"torn,omitempty"`
	Pct   int    `json:"pct,omitempty"`
	Errno string `json:"errno,omitempty"`
	Short bool   `json:"short,omitempty"`
}

var sideSeq int

func (t *Tree) Generate(inv Invocation, tag string) (*GenResult, error) {
	var args []string
	if inv.Report {
		args = append(args, "--report")
	}
	cwd := inv.Dir
	switch inv.CwdMode {
	case "", "dot":
		args = append(args, ".")
	case "rel":
		cwd = filepath.Dir(inv.Dir)
		args = append(args, filepath.Base(inv.Dir))
	case "relslash":
		cwd = filepath.Dir(inv.Dir)
		args = append(args, "./"+filepath.Base(inv.Dir)+"/")
	case "abs":
		cwd = filepath.Join(t.Base, "bin")
		args = append(args, inv.Dir)
	case "absslash":
		cwd = t.Base
		args = append(args, inv.Dir+"/")
	case "parentref":
		// from a sibling directory: ../<name>
		sib := inv.Dir + "_sib"
		if err := os.MkdirAll(sib, 0o755); err != nil {
			return nil, Infra("%v", err)
		}
		defer os.Remove(sib)
		cwd = sib
		args = append(args, "../"+filepath.Base(inv.Dir))
	case "fromsub":
		// from a sub-directory of the project: ..
		sub := filepath.Join(inv.Dir, "zz_subdir")
		if err := os.MkdirAll(sub, 0o755); err != nil {
			return nil, Infra("%v", err)
		}
		defer os.Remove(sub)
		cwd = sub
		args = append(args, "..")
	case "symlink":
		// the same directory reached through a symbolic link next to it
		link := inv.Dir + "_lnk"
		os.Remove(link)
		if err := os.Symlink(filepath.Base(inv.Dir), link); err != nil {
			return nil, Infra("symlink: %v", err)
		}
		defer os.Remove(link)
		cwd = link
		args = append(args, ".")
	case "symlinkrel":
		link := inv.Dir + "_lnk"
		os.Remove(link)
		if err := os.Symlink(filepath.Base(inv.Dir), link); err != nil {
			return nil, Infra("symlink: %v", err)
		}
		defer os.Remove(link)
		cwd = filepath.Dir(inv.Dir)
		args = append(args, filepath.Base(link))
	default:
		return nil, Infra("unknown cwd mode %q", inv.CwdMode)
	}
	// GOMAXPROCS is part of the environment too: go/packages parses and
	// type-checks in goroutines, and the simulator cannot schedule those, but it
	// can at least vary how many run at once.
	procs := []string{"1", "2", "4", "8"}[(uint64(len(inv.Dir))*7+uint64(len(inv.CwdMode))*3+uint64(len(tag)))%4]
	env := append(GoEnv(), "GOMAXPROCS="+procs)
	// The time zone is part of the environment a generation runs in: owned by
	// the simulator, derived from the directory and the map seed.
	zones := []string{"UTC", "Pacific/Kiritimati", "Etc/GMT+12", "Asia/Kolkata"}
	zh := uint64(len(inv.Dir))
	if inv.Op != nil {
		zh += inv.Op.Map.Seed
		inv.Op.ClockSkewHours = int(inv.Op.Map.Seed%61)*24 + int(inv.Op.Map.Seed%7)
	}
	for i := 0; i < len(inv.CwdMode); i++ {
		zh = zh*31 + uint64(inv.CwdMode[i])
	}
	env = append(env, "TZ="+zones[zh%uint64(len(zones))])
	// What a shell does: $PWD is the logical path of the working directory (it
	// keeps the symbolic link the user went through).
	env = append(env, "PWD="+cwd)
	// A third of the generations run as if started by `go generate` from a
	// directive in some other package: GOPACKAGE, GOFILE and GOLINE are set.
	if zh%3 == 0 {
		env = append(env, "GOPACKAGE="+[]string{"tools", "main", "gen"}[zh%5%3], "GOFILE=generate.go", "GOLINE=3")
	}
	sidePath := ""
	if inv.Op != nil {
		os.MkdirAll(filepath.Join(t.Base, "side"), 0o755)
		sidePath = filepath.Join(t.Base, "side", tag+".side")
		inv.Op.Sidecar = sidePath
		opPath := filepath.Join(t.Base, "side", tag+".op.json")
		b, _ := json.Marshal(inv.Op)
		if err := os.WriteFile(opPath, b, 0o644); err != nil {
			return nil, Infra("%v", err)
		}
		env = append(env, "VERIF_OP="+opPath)
		defer os.Remove(opPath)
		defer os.Remove(sidePath)
	}
	timeout := inv.Timeout
	if timeout == 0 {
		timeout = 300 * time.Second
	}
	// What the directory holds before the run: a generated file counts as
	// written by this process when it is new or its modification time or size
	// changed (tmpfs timestamps have nanosecond resolution). This does not
	// depend on which API lox uses to write.
	type fstat struct {
		mod  time.Time
		size int64
	}
	before := map[string]fstat{}
	for _, f := range GenFiles {
		if st, err := os.Stat(filepath.Join(inv.Dir, f)); err == nil {
			before[f] = fstat{st.ModTime(), st.Size()}
		}
	}
	cmd := exec.Command(inv.Bin, args...)
	cmd.Dir = cwd
	cmd.Env = env
	var so, se bytes.Buffer
	cmd.Stdout = &so
	cmd.Stderr = &se
	start := time.Now()
	if err := cmd.Start(); err != nil {
		return nil, Infra("cannot start %s: %v", inv.Bin, err)
	}
	done := make(chan error, 1)
	go func() { done <- cmd.Wait() }()
	res := &GenResult{}
	select {
	case err := <-done:
		if err != nil {
			if ee, ok := err.(*exec.ExitError); ok {
				res.Exit = ee.ExitCode()
			} else {
				return nil, Infra("wait: %v", err)
			}
		}
	case <-time.After(timeout):
		cmd.Process.Kill()
		<-done
		res.TimedOut = true
		res.Exit = -1
	}
	res.Wall = time.Since(start)
	res.Stdout = so.Bytes()
	res.Stderr = se.Bytes()
	if sidePath != "" {
		data, _ := os.ReadFile(sidePath)
		for _, line := range bytes.Split(data, []byte("\n")) {
			if len(bytes.TrimSpace(line)) == 0 {
				continue
			}
			var ev SideEvent
			if err := json.Unmarshal(line, &ev); err == nil {
				res.Side = append(res.Side, ev)
			}
		}
	}
	res.Files = map[string][]byte{}
	res.Touched = map[string]bool{}
	for _, f := range GenFiles {
		p := filepath.Join(inv.Dir, f)
		if b, err := os.ReadFile(p); err == nil {
			res.Files[f] = b
		}
		if st, err := os.Stat(p); err == nil && !st.IsDir() {
			if b, ok := before[f]; !ok || !b.mod.Equal(st.ModTime()) || b.size != st.Size() {
				res.Touched[f] = true
			}
		}
	}
	return res, nil
}

// TickBudget is the liveness budget of one generation in P3 ticks. The largest
// fault-free generation in the tree (examples/bolox, internal/parser) costs
// about 3*10^7 ticks; generated worlds are far smaller. 4*10^9 is two orders of
// magnitude above that and is reached by an endless loop in a few seconds.
const TickBudget int64 = 4_000_000_000
