package stagea

import (
	"crypto/sha256"
	"encoding/hex"
	"encoding/json"
	"fmt"
	"os"
	"path/filepath"
	"sort"
	"strings"
	"sync"
	"time"

	"verifsim/core"
	"verifsim/specgen"
)

// ---------------------------------------------------------------------------
// Families of variants.

type family struct {
	idx      int
	variants []*Variant
	foreign  map[string]string // generated files of a different grammar and package
}

var cwdModes = []string{"dot", "rel", "relslash", "abs", "absslash", "symlink", "symlinkrel", "parentref", "fromsub"}
var mapModes = []string{"asc", "desc", "shuffle", "rotate", "shuffle"}

func randMap(r *core.Rand) MapCfg {
	return MapCfg{Mode: mapModes[r.Intn(len(mapModes))], Seed: r.Uint64() >> 1}
}

func cloneSpec(s *specgen.Spec) *specgen.Spec {
	b, _ := json.Marshal(s)
	var c specgen.Spec
	json.Unmarshal(b, &c)
	return &c
}

// makeVariant prints a spec with a Go package variant.
func makeVariant(name string, s *specgen.Spec, gv specgen.GoVariant, note string) *Variant {
	return &Variant{Name: name, Files: s.ProjectFiles(gv), Note: note}
}

// buildFamily derives a base spec accepted by lox (rejections cost one exec)
// and 1-3 edited variants of it.
func buildFamily(x *Executor, seed uint64, idx int) (*family, int, error) {
	r := core.NewRand(core.Derive(seed, "family", idx))
	rejected := 0
	var base *specgen.Spec
	var gv specgen.GoVariant
	if idx%4 == 3 {
		// A family whose grammar is not LALR(1): every generation fails, and
		// what it prints (--report lists the conflicts) must still be the same
		// for every map order, history and working directory.
		kind := -1
		if idx%8 == 3 {
			kind = 4 // reduce/reduce between differently named rules: several conflict lines per state in --report
		}
		base = specgen.GenerateConflictingKind(r.Uint64(), kind)
		gv = specgen.GoVariant{FileName: "parser.go"}
		f := &family{idx: idx}
		f.variants = append(f.variants, makeVariant("v0", base, gv, "conflicting grammar"))
		s2 := cloneSpec(base)
		s2.TwoFiles = !s2.TwoFiles
		f.variants = append(f.variants, makeVariant("v1", s2, gv, "conflicting grammar, files split"))
		f.foreign = map[string]string{"base.gen.go": "package foreignpkg\n"}
		return f, 0, nil
	}
	for attempt := 0; ; attempt++ {
		if attempt > 40 {
			return nil, rejected, Infra("could not generate an accepted specification in 40 attempts (family %d)", idx)
		}
		opt := specgen.Options{RichParser: true, RichLexer: true}
		switch r.Intn(4) {
		case 0:
			opt.RichLexer = false
		case 1:
			opt.RichParser = false
		}
		cand := specgen.Generate(r.Uint64(), opt)
		if idx%4 == 0 {
			// every fourth family splits its grammar over three files, two of
			// which declare tokens: the order in which lox reads them matters
			cand.TwoFiles, cand.SplitLex = true, true
		}
		if idx%8 == 1 {
			// parser rules named like the reserved terminals
			cand = specgen.GenerateReservedRuleNames(r.Uint64())
		}
		if idx%8 == 5 {
			// one LR state with 36+ outgoing symbols
			cand = specgen.Generate(r.Uint64(), specgen.Options{RichParser: true, Wide: true})
		}
		gv = specgen.GoVariant{FileName: []string{"parser.go", "ast.go", "a.go", "zz.go"}[r.Intn(4)], MixedAny: r.Intn(2) == 0}
		if r.Intn(4) == 0 {
			gv.SplitFile = []string{"actions.go", "y_actions.go"}[r.Intn(2)]
		}
		if idx%4 == 2 {
			// every fourth family: action methods of one rule spelled `any` and
			// `interface{}` and spread over two Go files
			gv.MixedAny = true
			if !opt.RichParser {
				cand = specgen.Generate(r.Uint64(), specgen.Options{RichParser: true, RichLexer: opt.RichLexer})
			}
			if !cand.ForceMixableAny() {
				if attempt < 30 {
					continue
				}
				gv.MixedAny = false
			}
		} else if gv.MixedAny {
			gv.MixedAny = cand.ForceMixableAny()
		}
		// cheap screen: front-end only (packages.Load fails by injection)
		dir := filepath.Join(x.T.WorldRoot(), fmt.Sprintf("screen-%d-%d", idx, attempt))
		v := makeVariant("screen", cand, gv, "")
		if err := SetSources(dir, v); err != nil {
			return nil, rejected, Infra("%v", err)
		}
		obs, err := x.RunGen(dir, Op{Kind: "FailGen", Binary: "sim", Map: MapCfg{Mode: "asc"}, Cwd: "dot",
			Fault: &Fault{Fn: "packages.Load", Kind: "error"}}, "screen")
		os.RemoveAll(dir)
		if err != nil {
			return nil, rejected, err
		}
		reached := false
		for _, c := range obs.Calls {
			if c.Fn == "packages.Load" {
				reached = true
			}
		}
		if reached {
			base = cand
			break
		}
		rejected++
	}
	f := &family{idx: idx}
	f.variants = append(f.variants, makeVariant("v0", base, gv, "base"))
	nv := 1 + r.Intn(3)
	for i := 1; i <= nv; i++ {
		s := cloneSpec(base)
		g := gv
		var note string
		switch r.Intn(9) {
		case 0:
			s.Pkg = map[string]string{"main": "renamed", "gram": "main", "zparser": "gram2"}[s.Pkg]
			if s.Pkg == "" {
				s.Pkg = "other"
			}
			note = "package renamed"
		case 1:
			s.OnBounds = !s.OnBounds
			note = "_onBounds toggled"
		case 2:
			s.TwoFiles = !s.TwoFiles
			note = "lexer/parser split over files toggled"
		case 3:
			m := s.Modes[0]
			if len(m.Rules) >= 2 {
				a, b := r.Intn(len(m.Rules)), r.Intn(len(m.Rules))
				m.Rules[a], m.Rules[b] = m.Rules[b], m.Rules[a]
			}
			note = "two lexer rules swapped"
		case 4:
			s.Modes[0].Rules = append(s.Modes[0].Rules, &specgen.LexRule{Kind: specgen.RTok, Name: "ZADDED", Expr: &specgen.LexExpr{Op: specgen.LLit, Lit: "@@"}})
			note = "token added"
		case 5:
			s.Modes = append(s.Modes, &specgen.LexMode{Name: "Added", Rules: []*specgen.LexRule{
				{Kind: specgen.RTok, Name: "ZM", Expr: &specgen.LexExpr{Op: specgen.LLit, Lit: "%"}, Actions: []specgen.LexAction{{Kind: specgen.APop}}}}})
			note = "mode added"
		case 6:
			g.FileName = map[string]string{"parser.go": "ast.go", "ast.go": "parser.go", "a.go": "zz.go", "zz.go": "a.go"}[g.FileName]
			note = "user file renamed across base.gen.go in sort order"
		case 7:
			if len(s.Rules) > 1 {
				last := s.Rules[len(s.Rules)-1]
				s.Rules[len(s.Rules)-1] = s.Rules[len(s.Rules)-2]
				s.Rules[len(s.Rules)-2] = last
				if s.Start >= len(s.Rules)-2 {
					s.Start = 0
					// keep the same start rule object
					for k, rr := range s.Rules {
						if rr.Name == base.Rules[base.Start].Name {
							s.Start = k
						}
					}
				}
			}
			if r.Intn(3) == 0 {
				// the parser section is dropped altogether: a lexer-only project
				s.Rules = nil
				s.Start = 0
			}
			note = "two parser rules reordered (or parser section dropped)"
		default:
			for _, rr := range s.Rules {
				rr.Ret = (rr.Ret + 1) % 3
			}
			note = "action return types changed"
		}
		f.variants = append(f.variants, makeVariant(fmt.Sprintf("v%d", i), s, g, note))
	}
	// generated files from a different grammar/package, as text to plant
	fs := specgen.Generate(r.Uint64(), specgen.Options{RichLexer: true})
	fs.Pkg = "foreignpkg"
	f.foreign = map[string]string{
		"base.gen.go":   "package foreignpkg\n\nconst (\n\tEOF   int = 0\n\tERROR int = 1\n\tZZ    int = 2\n)\n\ntype _Stack[T any] []T\n",
		"lexer.gen.go":  "package foreignpkg\n\nvar _lexerMode0 = []uint32{1, 2, 3}\n\ntype _LexerStateMachine struct{ state int }\n",
		"parser.gen.go": "package foreignpkg\n\ntype lox struct{ stale int }\n\nfunc (p *lox) parse() bool { return false }\n",
	}
	return f, rejected, nil
}

// ---------------------------------------------------------------------------
// Model: the same generator on a pristine directory, memoised per variant.

type model struct {
	once sync.Once
	obs  *Observation
	err  error
}

type c13State struct {
	x        *Executor
	rep      *core.Reporter
	seed     uint64
	mu       sync.Mutex
	models   map[string]*model
	modelGen int
	samples  []any
	distinct map[string]bool
	fired    map[string]int
	probes   map[string]int
	p1       map[string]bool
	ties     int
	evals    int
	logHash  []string
	runHash  map[string]string
	budget   int
}

func (st *c13State) probe(name string) {
	st.mu.Lock()
	st.probes[name]++
	st.mu.Unlock()
}

// compareObs returns "" when b is an acceptable observation given reference a.
func compareObs(a, b *Observation, withReport bool) (string, string) {
	if a.ExitClass != b.ExitClass {
		return "exit", fmt.Sprintf("exit class %s (status %d) vs model %s (status %d)\nstderr here: %s\nstderr model: %s",
			b.ExitClass, b.Exit, a.ExitClass, a.Exit, tail([]byte(b.Stderr), 600), tail([]byte(a.Stderr), 600))
	}
	if a.ExitClass == "ok" {
		// A successful generation: what the directory holds afterwards is the
		// output, whether or not this process had to rewrite a file (a generator
		// may legitimately leave a file alone whose bytes are already right).
		for _, f := range GenFiles {
			da, oka := a.Disk[f]
			db, okb := b.Disk[f]
			if oka != okb {
				return "files-present", fmt.Sprintf("%s present: %v, in the model: %v", f, okb, oka)
			}
			if da != db {
				return f, firstDiff([]byte(da), []byte(db))
			}
		}
	} else {
		// A failed generation: only what this process wrote is its output;
		// stale files it did not touch are not.
		if strings.Join(a.Written, ",") != strings.Join(b.Written, ",") {
			return "files-written", fmt.Sprintf("files written %v vs model %v", b.Written, a.Written)
		}
		for _, f := range a.Written {
			if a.Files[f] != b.Files[f] {
				return f, firstDiff([]byte(a.Files[f]), []byte(b.Files[f]))
			}
		}
	}
	if withReport && a.Report != b.Report {
		return "report", firstDiff([]byte(a.Report), []byte(b.Report))
	}
	return "", ""
}

func (st *c13State) modelOf(v *Variant) (*Observation, error) {
	key := v.Hash()
	st.mu.Lock()
	m := st.models[key]
	if m == nil {
		m = &model{}
		st.models[key] = m
	}
	st.mu.Unlock()
	m.once.Do(func() {
		r := core.NewRand(core.Derive(st.seed, "model-"+key, 0))
		var ref *Observation
		// two full pristine generations under different map orders, cwd
		// spellings and directory names, cross-checked
		// Sources spread over several Go files are parsed by go/packages in
		// goroutines the simulator cannot schedule: such variants get more
		// pristine repetitions (under varying GOMAXPROCS) instead.
		reps := 2
		for n := range v.Files {
			if strings.HasSuffix(n, "more_actions.go") {
				reps = 7
			}
		}
		for i := 0; i < reps; i++ {
			dir := filepath.Join(st.x.T.WorldRoot(), fmt.Sprintf("model-%s-%d", key, i), []string{"pristine", "other_dir_name", "p3", "dir_four", "d5", "sixth", "no7"}[i])
			os.RemoveAll(filepath.Dir(dir))
			if err := SetSources(dir, v); err != nil {
				m.err = Infra("%v", err)
				return
			}
			op := Op{Kind: "Gen", Binary: "sim", Map: MapCfg{Mode: []string{"asc", "shuffle", "desc", "rotate", "shuffle", "shuffle", "asc"}[i], Seed: r.Uint64() >> 1}, Cwd: cwdModes[r.Intn(len(cwdModes))], Report: true}
			if i == 0 {
				op.Cwd = "dot"
			}
			obs, err := st.x.RunGen(dir, op, "model")
			os.RemoveAll(filepath.Dir(dir))
			if err != nil {
				m.err = err
				return
			}
			st.mu.Lock()
			st.modelGen++
			st.evals++
			for _, s := range obs.P1 {
				st.p1[s] = true
			}
			st.ties += obs.Ties
			st.mu.Unlock()
			if ref == nil {
				ref = obs
				continue
			}
			if what, detail := compareObs(ref, obs, true); what != "" {
				st.rep.Report(core.Signature{"class": "nondeterministic-output", "what": what},
					fmt.Sprintf("two pristine generations of the same sources differ (%s vs %s)\n%s", "map asc, cwd dot", op.String(), detail),
					map[string]any{"variants": map[string]*Variant{v.Name: v}, "ops": []Op{{Kind: "Gen", Variant: v.Name, Binary: "sim", Map: MapCfg{Mode: "asc"}, Cwd: "dot", Report: true}, op}, "mode": "pristine-pair"})
			}
		}
		// cheap partial generations (packages.Load fails by injection after
		// base and lexer are written): more map orders for two of the three
		// files and the report
		for i := 0; i < 3; i++ {
			dir := filepath.Join(st.x.T.WorldRoot(), fmt.Sprintf("model-%s-p%d", key, i), "partial")
			if err := SetSources(dir, v); err != nil {
				m.err = Infra("%v", err)
				return
			}
			op := Op{Kind: "FailGen", Binary: "sim", Map: MapCfg{Mode: []string{"desc", "rotate", "shuffle"}[i], Seed: r.Uint64() >> 1}, Cwd: cwdModes[r.Intn(len(cwdModes))], Report: true,
				Fault: &Fault{Fn: "packages.Load", Kind: "error"}}
			obs, err := st.x.RunGen(dir, op, "modelp")
			os.RemoveAll(filepath.Dir(dir))
			if err != nil {
				m.err = err
				return
			}
			st.mu.Lock()
			st.evals++
			for _, s := range obs.P1 {
				st.p1[s] = true
			}
			st.mu.Unlock()
			if !obs.FiredSim {
				continue // failed before packages.Load, as the model did
			}
			for _, f := range []string{"base.gen.go", "lexer.gen.go"} {
				if have, ok := obs.Files[f]; ok {
					if want, ok2 := ref.Files[f]; ok2 && want != have {
						st.rep.Report(core.Signature{"class": "nondeterministic-output", "what": f},
							fmt.Sprintf("partial generation under %s differs from the pristine model\n%s", op.String(), firstDiff([]byte(want), []byte(have))),
							map[string]any{"variants": map[string]*Variant{v.Name: v}, "ops": []Op{op}, "mode": "pristine-partial"})
					}
				}
			}
			if ref.ExitClass == "ok" && obs.Report != ref.Report {
				st.rep.Report(core.Signature{"class": "nondeterministic-output", "what": "report"},
					fmt.Sprintf("--report text under %s differs from the pristine model\n%s", op.String(), firstDiff([]byte(ref.Report), []byte(obs.Report))),
					map[string]any{"variants": map[string]*Variant{v.Name: v}, "ops": []Op{op}, "mode": "pristine-partial"})
			}
		}
		m.obs = ref
	})
	return m.obs, m.err
}

// execRun performs the ops of one run on one project directory and judges every
// fault-free Gen against the model. It returns the signature of the first
// violation (nil if none) without reporting it, so that the minimiser can call
// it too.
func (st *c13State) execRun(run *Run, record bool) (core.Signature, string, error) {
	base := filepath.Join(st.x.T.WorldRoot(), "run-"+run.ID)
	dir := filepath.Join(base, run.DirName)
	os.RemoveAll(base)
	defer os.RemoveAll(base)
	if err := os.MkdirAll(dir, 0o755); err != nil {
		return nil, "", Infra("%v", err)
	}
	var log []string
	var firstSig core.Signature
	var firstDetail string
	for i, op := range run.Ops {
		switch op.Kind {
		case "DeleteGen":
			os.Remove(filepath.Join(dir, op.File))
			log = append(log, op.String())
			continue
		case "Plant":
			for n, c := range op.Plant {
				os.WriteFile(filepath.Join(dir, n), []byte(c), 0o644)
			}
			log = append(log, op.String())
			continue
		case "MangleGen":
			// what tools do to checked-out files: line endings converted, a byte
			// order mark prepended, trailing blanks added
			for _, g := range GenFiles {
				p := filepath.Join(dir, g)
				b, err := os.ReadFile(p)
				if err != nil {
					continue
				}
				switch op.File {
				case "crlf":
					b = []byte(strings.ReplaceAll(strings.ReplaceAll(string(b), "\r\n", "\n"), "\n", "\r\n"))
				case "bom":
					b = append([]byte{0xEF, 0xBB, 0xBF}, b...)
				default:
					b = []byte(strings.ReplaceAll(string(b), "\n", " \n"))
				}
				os.WriteFile(p, b, 0o644)
			}
			log = append(log, op.String())
			continue
		}
		v := run.Variants[op.Variant]
		if v == nil {
			return nil, "", Infra("run %s: unknown variant %q", run.ID, op.Variant)
		}
		known := map[string]bool{}
		for _, kv := range run.Variants {
			for n := range kv.Files {
				known[n] = true
			}
		}
		if err := SetSources(dir, v, known); err != nil {
			return nil, "", Infra("%v", err)
		}
		obs, err := st.x.RunGen(dir, op, "r"+run.ID)
		if err != nil {
			return nil, "", err
		}
		if record {
			st.mu.Lock()
			st.evals++
			for _, s := range obs.P1 {
				st.p1[s] = true
			}
			st.ties += obs.Ties
			if op.Fault != nil && obs.FiredSim {
				cell := op.Kind + ":" + faultCell(op.Fault, obs)
				st.fired[cell]++
			}
			st.mu.Unlock()
		}
		log = append(log, fmt.Sprintf("%s -> %s %v %s", op.String(), obs.ExitClass, obs.Written, obs.ReportSha))
		if op.Kind != "Gen" {
			if op.Kind == "CrashGen" && obs.ExitClass != "crash(sim)" && record {
				st.probe("crash-not-reached")
			}
			continue
		}
		if obs.ExitClass == "hang" {
			if firstSig == nil {
				firstSig = core.Signature{"class": "tick-budget"}
				firstDetail = fmt.Sprintf("op %d %s did not terminate within the tick budget", i, op.String())
			}
			continue
		}
		m, err := st.modelOf(v)
		if err != nil {
			return nil, "", err
		}
		if m == nil {
			continue
		}
		if what, detail := compareObs(m, obs, op.Report); what != "" && firstSig == nil {
			firstSig = core.Signature{"class": "history-dependence", "what": what, "shape": historyShape(run.Ops[:i+1], run, dir)}
			firstDetail = fmt.Sprintf("op %d %s differs from the pristine model of %s\n%s\nhistory: %s", i, op.String(), v.Name, detail, strings.Join(log, "\n         "))
		}
	}
	{
		h := sha256.Sum256([]byte(strings.Join(log, "\n")))
		st.mu.Lock()
		if st.runHash == nil {
			st.runHash = map[string]string{}
		}
		st.runHash[run.ID] = hex.EncodeToString(h[:6])
		if record {
			st.logHash = append(st.logHash, run.ID+":"+hex.EncodeToString(h[:6]))
		}
		st.mu.Unlock()
	}
	return firstSig, firstDetail, nil
}

func faultCell(f *Fault, obs *Observation) string {
	fn := f.Fn
	for _, c := range obs.Calls {
		if c.Fault != nil {
			fn = c.Fn + "(" + c.Path + ")"
		}
	}
	switch f.Kind {
	case "crash":
		return fn + "/" + f.Torn
	default:
		s := fn + "/" + f.Errno
		if f.Short {
			s += "/short"
		}
		return s
	}
}

// historyShape abstracts the history into the feature that identifies a known
// defect: which operation kinds preceded and whether the package-name source
// chosen by the generator could be a generated file.
func historyShape(ops []Op, run *Run, dir string) string {
	var kinds []string
	for _, o := range ops[:len(ops)-1] {
		k := o.Kind
		if o.Fault != nil && o.Fault.Kind == "crash" {
			k += "/" + o.Fault.Torn
		}
		kinds = append(kinds, k)
	}
	last := ops[len(ops)-1]
	v := run.Variants[last.Variant]
	lastGo := ""
	for n := range v.Files {
		if strings.HasSuffix(n, ".go") && n > lastGo {
			lastGo = n
		}
	}
	src := "user-file-sorts-last"
	if lastGo < "base.gen.go" {
		src = "base.gen.go-sorts-last"
	}
	if len(kinds) > 3 {
		kinds = kinds[len(kinds)-3:]
	}
	_ = dir
	return src
}

// ---------------------------------------------------------------------------
// Run generation.

func (st *c13State) randomRun(f *family, runIdx int, calls int, writeCalls []int) *Run {
	r := core.NewRand(core.Derive(st.seed, fmt.Sprintf("run-%d", f.idx), runIdx))
	run := &Run{ID: fmt.Sprintf("%d-%d", f.idx, runIdx), DirName: []string{"proj", "my_parser", "x"}[r.Intn(3)], Variants: map[string]*Variant{}}
	for _, v := range f.variants {
		run.Variants[v.Name] = v
	}
	pickV := func() string { return f.variants[r.Intn(len(f.variants))].Name }
	nops := 1 + r.Intn(4)
	for i := 0; i < nops; i++ {
		switch r.Intn(10) {
		case 0, 1, 2:
			bin := "sim"
			if r.Intn(4) == 0 {
				bin = "plain"
			}
			run.Ops = append(run.Ops, Op{Kind: "Gen", Variant: pickV(), Binary: bin, Map: randMap(r), Cwd: cwdModes[r.Intn(len(cwdModes))], Report: r.Intn(3) == 0})
		case 3, 4, 5:
			// crash: biased to the writes and the window between them
			call := 1 + r.Intn(calls)
			if len(writeCalls) > 0 && r.Intn(100) < 75 {
				call = writeCalls[r.Intn(len(writeCalls))]
			}
			torn := []string{"none", "trunc0", "prefix", "full"}[r.Intn(4)]
			run.Ops = append(run.Ops, Op{Kind: "CrashGen", Variant: pickV(), Binary: "sim", Map: randMap(r), Cwd: cwdModes[r.Intn(len(cwdModes))],
				Fault: &Fault{Call: call, Kind: "crash", Torn: torn, Pct: 1 + r.Intn(99)}})
		case 6, 7:
			call := 1 + r.Intn(calls)
			flt := &Fault{Call: call, Kind: "errno", Errno: []string{"EIO", "ENOSPC", "EACCES", "ENOENT"}[r.Intn(4)], Short: r.Intn(2) == 0, Pct: r.Intn(100)}
			if r.Intn(4) == 0 {
				flt = &Fault{Fn: "packages.Load", Kind: "error"}
			}
			run.Ops = append(run.Ops, Op{Kind: "FailGen", Variant: pickV(), Binary: "sim", Map: randMap(r), Cwd: cwdModes[r.Intn(len(cwdModes))], Fault: flt})
		case 8:
			if r.Intn(2) == 0 {
				run.Ops = append(run.Ops, Op{Kind: "MangleGen", File: []string{"crlf", "bom", "trailing-blanks"}[r.Intn(3)]})
			} else {
				run.Ops = append(run.Ops, Op{Kind: "DeleteGen", File: GenFiles[r.Intn(3)]})
			}
		case 9:
			plant := map[string]string{}
			for _, g := range GenFiles {
				if r.Intn(3) > 0 {
					plant[g] = f.foreign[g]
				}
			}
			if len(plant) == 0 {
				plant["base.gen.go"] = f.foreign["base.gen.go"]
			}
			run.Ops = append(run.Ops, Op{Kind: "Plant", Plant: plant})
		}
	}
	bin := "sim"
	if r.Intn(5) == 0 {
		bin = "plain"
	}
	run.Ops = append(run.Ops, Op{Kind: "Gen", Variant: pickV(), Binary: bin, Map: randMap(r), Cwd: cwdModes[r.Intn(len(cwdModes))], Report: r.Intn(2) == 0})
	return run
}

// walkRuns enumerates every (seam call, torn mode) and (seam call, errno)
// pair of one family once, each followed by the closing Gen.
func (st *c13State) walkRuns(f *family, calls []SideEvent) []*Run {
	var runs []*Run
	v0, vLast := f.variants[0].Name, f.variants[len(f.variants)-1].Name
	mk := func(id string, ops ...Op) {
		run := &Run{ID: fmt.Sprintf("%d-w%s", f.idx, id), DirName: "proj", Variants: map[string]*Variant{}}
		for _, v := range f.variants {
			run.Variants[v.Name] = v
		}
		// a successful generation first, so that the fault hits a directory
		// that already holds generated files
		run.Ops = append([]Op{{Kind: "Gen", Variant: v0, Binary: "sim", Map: MapCfg{Mode: "asc"}, Cwd: "dot"}}, ops...)
		runs = append(runs, run)
	}
	for _, c := range calls {
		closing := Op{Kind: "Gen", Variant: vLast, Binary: "sim", Map: MapCfg{Mode: "desc"}, Cwd: "rel", Report: true}
		if isWriteSeam(c.Fn) {
			for _, torn := range []string{"trunc0", "prefix", "full"} {
				mk(fmt.Sprintf("c%d%s", c.N, torn), Op{Kind: "CrashGen", Variant: vLast, Binary: "sim", Map: MapCfg{Mode: "asc"}, Cwd: "dot",
					Fault: &Fault{Call: c.N, Kind: "crash", Torn: torn, Pct: 40}}, closing)
			}
			for _, short := range []bool{false, true} {
				mk(fmt.Sprintf("e%dshort%v", c.N, short), Op{Kind: "FailGen", Variant: vLast, Binary: "sim", Map: MapCfg{Mode: "asc"}, Cwd: "dot",
					Fault: &Fault{Call: c.N, Kind: "errno", Errno: "ENOSPC", Short: short, Pct: 55}}, closing)
			}
		} else if c.Fn != "filepath.Abs" {
			mk(fmt.Sprintf("e%d", c.N), Op{Kind: "FailGen", Variant: vLast, Binary: "sim", Map: MapCfg{Mode: "asc"}, Cwd: "dot",
				Fault: &Fault{Call: c.N, Kind: "errno", Errno: "EIO"}}, closing)
		}
	}
	return runs
}

// ---------------------------------------------------------------------------

func CheckC13(tier string, seed uint64, rep *core.Reporter) (*core.Evidence, error) {
	start := time.Now()
	t, err := NewTree("C13", true)
	if err != nil {
		return nil, err
	}
	defer t.Close()
	x := &Executor{T: t}
	st := &c13State{x: x, rep: rep, seed: seed, models: map[string]*model{}, distinct: map[string]bool{},
		fired: map[string]int{}, probes: map[string]int{}, p1: map[string]bool{}}

	nFam, runsPerFam, walkFams := 8, 5, 1
	if tier == "thorough" {
		nFam, runsPerFam, walkFams = 60, 10, 6
	}
	if v := os.Getenv("VERIF_C13_FAMILIES"); v != "" {
		fmt.Sscan(v, &nFam)
	}

	var allRuns []*Run
	rejected := 0
	var famMu sync.Mutex
	var wg sync.WaitGroup
	sem := make(chan struct{}, 5)
	var firstErr error
	setErr := func(e error) {
		famMu.Lock()
		if firstErr == nil {
			firstErr = e
		}
		famMu.Unlock()
	}
	famRuns := make([][]*Run, nFam)
	for fi := 0; fi < nFam; fi++ {
		wg.Add(1)
		go func(fi int) {
			defer wg.Done()
			sem <- struct{}{}
			defer func() { <-sem }()
			f, rej, err := buildFamily(x, seed, fi)
			famMu.Lock()
			rejected += rej
			famMu.Unlock()
			if err != nil {
				setErr(err)
				return
			}
			// the fault-free generation of v0 gives the seam-call numbering
			m, err := st.modelOf(f.variants[0])
			if err != nil {
				setErr(err)
				return
			}
			var writeCalls []int
			for _, c := range m.Calls {
				if isWriteSeam(c.Fn) {
					writeCalls = append(writeCalls, c.N)
				}
			}
			ncalls := len(m.Calls)
			if ncalls == 0 {
				ncalls = 1
			}
			var runs []*Run
			if fi < walkFams {
				runs = append(runs, st.walkRuns(f, m.Calls)...)
			}
			runs = append(runs, st.directedRuns(f)...)
			for ri := 0; ri < runsPerFam; ri++ {
				runs = append(runs, st.randomRun(f, ri, ncalls, writeCalls))
			}
			famRuns[fi] = runs
		}(fi)
	}
	wg.Wait()
	if firstErr != nil {
		return nil, firstErr
	}
	for _, rs := range famRuns {
		allRuns = append(allRuns, rs...)
	}

	type outcome struct {
		run    *Run
		sig    core.Signature
		detail string
	}
	outcomes := make([]outcome, len(allRuns))
	for i, run := range allRuns {
		wg.Add(1)
		go func(i int, run *Run) {
			defer wg.Done()
			sem <- struct{}{}
			defer func() { <-sem }()
			sig, detail, err := st.execRun(run, true)
			if err != nil {
				setErr(err)
				return
			}
			outcomes[i] = outcome{run, sig, detail}
		}(i, run)
	}
	wg.Wait()
	if firstErr != nil {
		return nil, firstErr
	}

	// Determinism probe: re-execute a few runs, now alone and in order; the
	// event log of each (operations, exit classes, files written, report
	// digests) must be identical. A difference is trouble of the machinery.
	detChecked := 0
	for i := 0; i < len(allRuns) && detChecked < 4; i += 1 + len(allRuns)/4 {
		run := allRuns[i]
		before := st.runHash[run.ID]
		if _, _, err := st.execRun(run, false); err != nil {
			return nil, err
		}
		if after := st.runHash[run.ID]; after != before {
			if len(rep.Violations) > 0 {
				// nondeterministic output of lox was already established and
				// reported: event logs that differ are that violation seen
				// once more, not trouble of the machinery
				detChecked++
				continue
			}
			return nil, Infra("gen-sim is not deterministic: run %s produced event log %s, then %s", run.ID, before, after)
		}
		detChecked++
	}

	// Report (after minimising) in run order, so that output is deterministic.
	for _, o := range outcomes {
		key := opsKey(o.run)
		if hasFault(o.run) {
			st.distinct[key] = true
		}
		if o.sig == nil {
			continue
		}
		min := st.minimise(o.run, o.sig)
		sig2, detail2, err := st.execRun(min, false)
		if err != nil {
			return nil, err
		}
		if sig2 == nil || sig2.String() != o.sig.String() {
			// minimised run lost the violation: report the original
			min, sig2, detail2 = o.run, o.sig, o.detail
		}
		rep.Report(sig2, detail2, map[string]any{"mode": "run", "run": min, "minimised_from_ops": len(o.run.Ops)})
	}

	// Samples for the evidence file.
	for i, o := range outcomes {
		if i%(1+len(outcomes)/8) == 0 {
			var ops []string
			for _, op := range o.run.Ops {
				ops = append(ops, op.String())
			}
			verdict := "equal to pristine model"
			if o.sig != nil {
				verdict = o.sig.String()
			}
			st.samples = append(st.samples, map[string]any{"run": o.run.ID, "ops": ops, "verdict": verdict})
		}
	}
	sort.Strings(st.logHash)
	lh := sha256.Sum256([]byte(strings.Join(st.logHash, "\n")))
	sites := make([]string, 0, len(st.p1))
	for s := range st.p1 {
		sites = append(sites, s)
	}
	sort.Strings(sites)
	wall := time.Since(start).Seconds()
	ev := &core.Evidence{
		PropertyID: "C13", Tier: tier, Seed: int64(seed), Level: "exploration",
		Coverage: map[string]any{
			"evaluations":         st.evals,
			"distinct_nontrivial": len(st.distinct),
			"rule": "one evaluation = one generation process (lox-sim or lox) in a simulated project directory; a run = 2-6 operations (Gen, CrashGen at seam call k with torn write, FailGen with errno, delete/plant generated files, variant switch) closed by a fault-free Gen that must equal the pristine model of the same sources. " +
				"distinct_nontrivial = distinct op sequences (kinds, variants, fault cells, map modes, cwd) among runs in which at least one fault, crash, plant or delete preceded the closing Gen",
			"samples":                 st.samples,
			"exhaustive":              false,
			"runs":                    len(allRuns),
			"families":                nFam,
			"families_walked":         walkFams,
			"specs_rejected_by_lox":   rejected,
			"model_generations":       st.modelGen,
			"processes_started":       x.Gens,
			"full_generations":        x.Full,
			"fault_cells_fired":       st.fired,
			"probes":                  st.probes,
			"p1_sites_visited":        sites,
			"p1_sites_total":          len(t.Instr.P1Sites),
			"p1_key_ties":             st.ties,
			"unwrapped_os_calls":      t.Instr.Unwrapped,
			"go_statements_in_lox":    len(t.Instr.GoStmts),
			"event_log_hash":          hex.EncodeToString(lh[:8]),
			"determinism_probe":       fmt.Sprintf("%d runs re-executed alone: identical event logs", detChecked),
			"runs_per_hour":           int(float64(len(allRuns)) / wall * 3600),
			"generations_per_hour":    int(float64(x.Gens) / wall * 3600),
			"simulated_time":          "none: lox reads no clock; logical steps (seam calls, ticks) only",
			"components_real":         []string{"all lox packages (instrumented copy and plain binary)", "jet", "go/format", "go/types", "x/tools/go/packages", "go list subprocess", "tmpfs file system"},
			"components_simulated":    []string{"map iteration order (P1)", "crash at seam call with torn write (P2)", "errno / short write (P2)", "go list failure", "cwd, spelling and name of the project directory", "stale/foreign generated files"},
			"components_stubbed":      []string{},
			"known_findings_hit":      rep.KnownHits,
		},
		Assumptions: []string{
			"every permutation produced by simrt.MapSeq is an order the Go runtime may produce",
			"a crash is modelled as process exit at a seam call; writes are atomic at the granularity of os.WriteFile prefixes",
			"the model (same generator on a pristine directory) is the right reference for history- and schedule-independence",
		},
		WallS: wall,
	}
	return ev, nil
}

func hasFault(run *Run) bool {
	for _, op := range run.Ops[:len(run.Ops)-1] {
		if op.Kind != "Gen" {
			return true
		}
	}
	return false
}

func opsKey(run *Run) string {
	var sb strings.Builder
	for _, op := range run.Ops {
		sb.WriteString(op.String())
		if v := run.Variants[op.Variant]; v != nil {
			sb.WriteString("#" + v.Hash())
		}
		sb.WriteString(";")
	}
	return sb.String()
}

// minimise drops operations and simplifies the remaining ones while the same
// violation signature persists.
func (st *c13State) minimise(run *Run, sig core.Signature) *Run {
	cur := run
	try := func(cand *Run) bool {
		s, _, err := st.execRun(cand, false)
		return err == nil && s != nil && s.String() == sig.String()
	}
	budget := 24
	// drop ops (never the last)
	for i := 0; i < len(cur.Ops)-1 && budget > 0; {
		cand := *cur
		cand.ID = cur.ID + "m"
		cand.Ops = append(append([]Op{}, cur.Ops[:i]...), cur.Ops[i+1:]...)
		budget--
		if try(&cand) {
			cur = &cand
		} else {
			i++
		}
	}
	// simplify the closing op
	last := cur.Ops[len(cur.Ops)-1]
	simple := last
	simple.Map = MapCfg{Mode: "asc"}
	simple.Cwd = "dot"
	if (simple.Map != last.Map || simple.Cwd != last.Cwd) && budget > 0 {
		cand := *cur
		cand.ID = cur.ID + "s"
		cand.Ops = append(append([]Op{}, cur.Ops[:len(cur.Ops)-1]...), simple)
		budget--
		if try(&cand) {
			cur = &cand
		}
	}
	// drop variants that are no longer referenced
	used := map[string]bool{}
	for _, op := range cur.Ops {
		used[op.Variant] = true
	}
	nv := map[string]*Variant{}
	for n, v := range cur.Variants {
		if used[n] {
			nv[n] = v
		}
	}
	out := *cur
	out.Variants = nv
	return &out
}

// ReplayC13 re-executes a recorded run (or pristine pair) against the current
// tree and reports whether the recorded signature reproduces.
func ReplayC13(path string, rep *core.Reporter) (int, error) {
	data, err := os.ReadFile(path)
	if err != nil {
		return 2, Infra("%v", err)
	}
	var doc struct {
		Signature core.Signature `json:"signature"`
		Seed      uint64         `json:"seed"`
		Replay    struct {
			Mode     string              `json:"mode"`
			Run      *Run                `json:"run"`
			Variants map[string]*Variant `json:"variants"`
			Ops      []Op                `json:"ops"`
		} `json:"replay"`
	}
	if err := json.Unmarshal(data, &doc); err != nil {
		return 2, Infra("bad replay file: %v", err)
	}
	t, err := NewTree("C13r", true)
	if err != nil {
		return 2, err
	}
	defer t.Close()
	rep.ReplayPath = path
	st := &c13State{x: &Executor{T: t}, rep: rep, seed: doc.Seed, models: map[string]*model{}, distinct: map[string]bool{},
		fired: map[string]int{}, probes: map[string]int{}, p1: map[string]bool{}}
	var sig core.Signature
	var detail string
	switch doc.Replay.Mode {
	case "run":
		sig, detail, err = st.execRun(doc.Replay.Run, false)
		if err != nil {
			return 2, err
		}
	default:
		// pristine pair / partial: computing the model re-runs the comparison
		for _, v := range doc.Replay.Variants {
			if _, err := st.modelOf(v); err != nil {
				return 2, err
			}
		}
		if len(rep.Violations) > 0 {
			sig = rep.Violations[0].Sig
		}
	}
	if sig == nil {
		fmt.Printf("replay: no violation reproduced (recorded: %s)\n", doc.Signature.String())
		return 0, nil
	}
	fmt.Printf("replay: reproduced %s\n%s\n", sig.String(), detail)
	if sig.String() != doc.Signature.String() {
		fmt.Printf("replay: signature differs from the recorded one (%s)\n", doc.Signature.String())
	}
	if doc.Replay.Mode == "run" {
		rep.ReplayPath = path
		rep.Report(sig, detail, doc.Replay)
	}
	return 1, nil
}

// isWriteSeam: seam calls that change what the directory holds.
func isWriteSeam(fn string) bool {
	switch fn {
	case "os.WriteFile", "File.Write", "os.Rename", "os.Create", "os.OpenFile", "os.Remove", "File.Close":
		return true
	}
	return false
}

// DebugFamily prints family idx of the C13 workload and generates its base
// variant n times with the plain binary, reporting distinct outputs.
func DebugFamily(seed uint64, idx, n int) error {
	t, err := NewTree("dbgfam", true)
	if err != nil {
		return err
	}
	defer t.Close()
	x := &Executor{T: t}
	f, _, err := buildFamily(x, seed, idx)
	if err != nil {
		return err
	}
	v := f.variants[0]
	for _, name := range sortedKeys(v.Files) {
		fmt.Printf("==== %s\n%s\n", name, v.Files[name])
	}
	seen := map[string]int{}
	for i := 0; i < n; i++ {
		dir := filepath.Join(t.WorldRoot(), fmt.Sprintf("dbg-%d", i), "proj")
		if err := SetSources(dir, v); err != nil {
			return err
		}
		obs, err := x.RunGen(dir, Op{Kind: "Gen", Binary: "plain", Cwd: "dot"}, fmt.Sprintf("dbg%d", i))
		if err != nil {
			return err
		}
		seen[obs.ExitClass+" "+obs.FileSha["parser.gen.go"]]++
	}
	fmt.Println("distinct outputs:", seen)
	return nil
}

// directedRuns are the plainest histories, run for every family: a successful
// generation, an edit of the sources (switch to another variant) and a second
// generation without --report; and a successful generation, a tool that
// mangles the generated files, and a regeneration.
func (st *c13State) directedRuns(f *family) []*Run {
	var runs []*Run
	mk := func(id string, ops ...Op) {
		run := &Run{ID: fmt.Sprintf("%d-d%s", f.idx, id), DirName: "proj", Variants: map[string]*Variant{}, Ops: ops}
		for _, v := range f.variants {
			run.Variants[v.Name] = v
		}
		runs = append(runs, run)
	}
	v0 := f.variants[0].Name
	first := Op{Kind: "Gen", Variant: v0, Binary: "sim", Map: MapCfg{Mode: "asc"}, Cwd: "dot"}
	for k, v := range f.variants[1:] {
		bin := "sim"
		if k%2 == 1 {
			bin = "plain"
		}
		mk(fmt.Sprintf("edit%d", k), first, Op{Kind: "Gen", Variant: v.Name, Binary: bin, Map: MapCfg{Mode: "desc"}, Cwd: "rel"})
		mk(fmt.Sprintf("editback%d", k), Op{Kind: "Gen", Variant: v.Name, Binary: "sim", Map: MapCfg{Mode: "asc"}, Cwd: "dot"},
			Op{Kind: "Gen", Variant: v0, Binary: "sim", Map: MapCfg{Mode: "rotate", Seed: 7}, Cwd: "dot"})
	}
	if f.idx%2 == 0 {
		kind := []string{"crlf", "bom", "trailing-blanks"}[(f.idx/2)%3]
		mk("mangle", first, Op{Kind: "MangleGen", File: kind}, Op{Kind: "Gen", Variant: v0, Binary: "sim", Map: MapCfg{Mode: "desc"}, Cwd: "dot"})
	}
	return runs
}
