package main

import (
	"encoding/json"
	"fmt"
	gotoken "go/token"
	"os"
	"regexp"
	"strings"

	"github.com/dcaiafa/loxlex/simplelexer"

	"verifsim/core"
	"verifsim/earley"
	"verifsim/hrt"
	"verifsim/specgen"
)

// C09Run is one simulated parse: a grammar package, a lexer configuration and
// the token stream (or byte input) delivered through the _Lexer seam.
type C09Run struct {
	Pkg    string   `json:"pkg"`
	Lexer  string   `json:"lexer"`            // stub | real
	Tokens []string `json:"tokens,omitempty"` // stub: delivered token names ("ERROR" = lexer error token)
	Input  []byte   `json:"input,omitempty"`  // real: bytes fed to simplelexer
	Faults []string `json:"faults,omitempty"`
	Source string   `json:"source,omitempty"` // how the stream was made
}

type stubLexer struct {
	toks  []hrt.Token
	i     int
	reads int
	eof   int
}

func (l *stubLexer) ReadToken() (hrt.Token, int) {
	hrt.Tick("seam:ReadToken")
	l.reads++
	if l.i < len(l.toks) {
		t := l.toks[l.i]
		l.i++
		return t, t.Type
	}
	return hrt.Token{Type: l.eof, Seq: len(l.toks) + 1}, l.eof
}

type realLexer struct {
	lx        *simplelexer.Lexer
	delivered []hrt.Token
	reads     int
	eof       int
}

func (l *realLexer) ReadToken() (hrt.Token, int) {
	hrt.Tick("seam:ReadToken")
	l.reads++
	t, typ := l.lx.ReadToken()
	ht := hrt.Token{Type: typ, Str: t.Str, Pos: t.Pos, Err: t.Err}
	if typ == l.eof {
		ht.Seq = len(l.delivered) + 1
		return ht, typ
	}
	ht.Seq = len(l.delivered) + 1
	l.delivered = append(l.delivered, ht)
	return ht, typ
}

func (w *World) budget(n int) int64 {
	t := int64(len(w.GE.Terms) + 1)
	p := int64(w.NProds + 1)
	b := int64(100000) + 20*int64(n+2)*int64(n+2)*p*t
	if b > 2_000_000_000 {
		b = 2_000_000_000
	}
	return b
}

type parseOutcome struct {
	Ret       bool
	Rec       *hrt.Recorder
	Verdict   hrt.Verdict
	Delivered []hrt.Token
	Reads     int
}

func (w *World) startRule() string { return w.E.Spec.Rules[w.E.Spec.Start].Name }

func (w *World) typesOf(names []string) []int {
	out := make([]int, len(names))
	for i, n := range names {
		tt, ok := w.P.Tokens[n]
		if !ok {
			tt = 9999 // a token type the grammar does not know
		}
		out[i] = tt
	}
	return out
}

func (w *World) execParse(run *C09Run) *parseOutcome {
	out := &parseOutcome{Rec: hrt.NewRecorder(w.startRule())}
	eof := w.P.Tokens["EOF"]
	if run.Lexer == "real" {
		fset := gotoken.NewFileSet()
		file := fset.AddFile("input", -1, len(run.Input))
		rl := &realLexer{eof: eof}
		out.Verdict = hrt.RunSolo(w.budget(len(run.Input)), func() {
			rl.lx = simplelexer.New(simplelexer.Config{StateMachine: w.P.NewSM(), File: file, Input: run.Input})
			out.Ret = w.P.Parse(out.Rec, rl)
		})
		out.Delivered = rl.delivered
		out.Reads = rl.reads
		return out
	}
	types := w.typesOf(run.Tokens)
	toks := make([]hrt.Token, len(types))
	for i, tt := range types {
		toks[i] = hrt.Token{Type: tt, Seq: i + 1, Str: []byte(run.Tokens[i])}
	}
	sl := &stubLexer{toks: toks, eof: eof}
	out.Verdict = hrt.RunSolo(w.budget(len(toks)), func() {
		out.Ret = w.P.Parse(out.Rec, sl)
	})
	out.Delivered = toks
	out.Reads = sl.reads
	return out
}

var reNum = regexp.MustCompile(`[0-9]+`)

type c09Flags struct {
	Sentence      bool
	ErrorsSeen    bool
	Recovered     bool
	Anomaly       string
	FirstBadIndex int
}

// judgeC09 evaluates the recorded history against the reference models.
func (w *World) judgeC09(o *parseOutcome) (map[string]string, string, c09Flags) {
	var fl c09Flags
	switch o.Verdict.Kind {
	case "budget":
		// the signature does not name the innermost function: an endless
		// recovery loop spans parse, _recover, the actions and the lexer seam,
		// and where the budget runs out is arbitrary
		return map[string]string{"class": "tick-budget", "where": "parse"},
			fmt.Sprintf("parse did not return within %d ticks (last site %s)", o.Verdict.Ticks, o.Verdict.Site), fl
	case "panic":
		return map[string]string{"class": "panic", "fn": o.Verdict.Site, "msg": reNum.ReplaceAllString(o.Verdict.Detail, "N")},
			"parse panicked: " + o.Verdict.Detail, fl
	case "abort":
		return map[string]string{"class": "abort", "what": o.Verdict.Site}, o.Verdict.Detail, fl
	}
	errT := w.P.Tokens["ERROR"]
	ids := make([]int, len(o.Delivered))
	hasLexErr := false
	for i, t := range o.Delivered {
		if t.Type == errT {
			ids[i] = -1
			hasLexErr = true
		} else if g, ok := w.T2G[t.Type]; ok {
			ids[i] = g
		} else {
			ids[i] = -2
		}
	}
	fl.Sentence = !hasLexErr && earley.Member(w.G0, ids)
	fl.ErrorsSeen = len(o.Rec.Errors) > 0
	if !fl.Sentence {
		if o.Ret && len(o.Rec.Errors) == 0 {
			return map[string]string{"class": "silent-accept"}, "parse returned true on a non-sentence without delivering any Error", fl
		}
		// The statement is a disjunction: parse() returns false, OR it delivers
		// an Error and the first one carries the first offending token. When
		// parse() gives up, Error symbols still on the stack were never reduced
		// and cannot have been delivered (e.g. `do [ do + >` then EOF: the inner
		// block's Error is delivered, the outer block never completes), so the
		// blame clause is judged on parses that returned true.
		if len(o.Rec.Errors) > 0 && o.Ret {
			i := earley.FirstNonViable(w.GE, ids)
			fl.FirstBadIndex = i
			want := i + 1
			// Errors reach actions in reduction order (an inner production is
			// reduced before the outer one that holds an earlier @error), so
			// "first" is read in input order: the earliest Error delivered.
			first := o.Rec.Errors[0]
			for _, e := range o.Rec.Errors[1:] {
				if e.Tok.Seq < first.Tok.Seq {
					first = e
				}
			}
			got := first.Tok.Seq
			if got != want {
				shape := "later-token"
				if got < want {
					shape = "earlier-token"
				}
				sig := map[string]string{"class": "blame", "shape": shape}
				if len(w.GE.Unproductive) > 0 {
					// The grammar is not reduced: some rule derives no terminal
					// string. The LR automaton does not know that and shifts
					// tokens that only such a rule could continue, so the error
					// is detected later than the first token that is not a prefix
					// of any sentence.
					sig["grammar"] = "unreduced"
				}
				return sig,
					fmt.Sprintf("the earliest Error delivered carries token #%d (type %s) but the input stops being a prefix of any sentence at token #%d; %d Error(s) delivered, recoveries entered before the first delivery: %d",
						got, w.P.TokenToString(first.Tok.Type), want, len(o.Rec.Errors), o.Rec.RecoversAtFirstError), fl
			}
		}
	}
	if o.Ret {
		fl.Recovered = len(o.Rec.Errors) > 0
		if o.Rec.Root == nil {
			return map[string]string{"class": "accepted-without-tree"}, "parse returned true but the start rule was never reduced", fl
		}
		leaves := hrt.Yield(o.Rec.Root)
		ytypes := make([]int, len(leaves))
		for i, l := range leaves {
			if l.IsErr {
				ytypes[i] = w.GE.ErrorT
			} else if g, ok := w.T2G[l.Tok.Type]; ok {
				ytypes[i] = g
			} else {
				ytypes[i] = -2
			}
		}
		if !earley.Member(w.GE, ytypes) {
			return map[string]string{"class": "accepted-non-sentence"},
				fmt.Sprintf("parse returned true but the consumed symbols %s are not a sentence", w.leafString(leaves)), fl
		}
		// consumed tokens are delivered tokens, in order, gaps only under @error
		pos := 0
		wild := false
		for _, l := range leaves {
			if l.IsErr {
				wild = true
				continue
			}
			if l.IsSep {
				// a @list separator: its position was not recorded; it must be
				// the next delivered token unless an @error stretch precedes it
				if !wild {
					if pos >= len(o.Delivered) || o.Delivered[pos].Type != l.Tok.Type {
						return map[string]string{"class": "consumed-mismatch", "what": "list-separator"},
							fmt.Sprintf("a @list separator of type %s is not the delivered token #%d: %s", w.P.TokenToString(l.Tok.Type), pos+1, w.leafString(leaves)), fl
					}
					pos++
				}
				continue
			}
			s := l.Tok.Seq
			if s < 1 || s > len(o.Delivered) || o.Delivered[s-1].Type != l.Tok.Type {
				return map[string]string{"class": "consumed-mismatch", "what": "foreign-token"},
					fmt.Sprintf("tree leaf t%d:%d is not a delivered token", s, l.Tok.Type), fl
			}
			if wild {
				if s < pos+1 {
					return map[string]string{"class": "consumed-mismatch", "what": "order"},
						fmt.Sprintf("tree leaf t%d appears after position %d was already consumed: %s", s, pos, w.leafString(leaves)), fl
				}
			} else if s != pos+1 {
				return map[string]string{"class": "consumed-mismatch", "what": "gap-without-error"},
					fmt.Sprintf("delivered token #%d is missing from the consumed symbols although no @error covers it: %s", pos+1, w.leafString(leaves)), fl
			}
			pos = s
			wild = false
		}
		if !wild && pos != len(o.Delivered) {
			return map[string]string{"class": "consumed-mismatch", "what": "tail"},
				fmt.Sprintf("parse returned true but delivered tokens after #%d are not accounted for: %s", pos, w.leafString(leaves)), fl
		}
	}
	if fl.Sentence && (!o.Ret || len(o.Rec.Errors) > 0) {
		fl.Anomaly = fmt.Sprintf("sentence not accepted cleanly (ret=%v errors=%d)", o.Ret, len(o.Rec.Errors))
	}
	return nil, "", fl
}

func (w *World) leafString(ls []hrt.Leaf) string {
	var sb strings.Builder
	for i, l := range ls {
		if i > 0 {
			sb.WriteString(" ")
		}
		if l.IsErr {
			fmt.Fprintf(&sb, "@error(t%d)", l.Tok.Seq)
		} else {
			fmt.Fprintf(&sb, "%s#%d", w.P.TokenToString(l.Tok.Type), l.Tok.Seq)
		}
	}
	return sb.String()
}

// ---------------------------------------------------------------------------
// Workload.

func (w *World) termNames(ids []int) []string {
	out := make([]string, len(ids))
	for i, id := range ids {
		out[i] = w.GE.Terms[id]
	}
	return out
}

// inputTerminals: terminals an input may carry (everything but ERROR).
func (w *World) inputTerminals() []string {
	var out []string
	for _, n := range w.GE.Terms {
		if n != "ERROR" {
			out = append(out, n)
		}
	}
	return out
}

func (w *World) genStream(r *core.Rand) *C09Run {
	run := &C09Run{Pkg: w.E.Pkg, Lexer: "stub"}
	terms := w.inputTerminals()
	randTok := func() string {
		if r.Intn(12) == 0 {
			return "ERROR"
		}
		return terms[r.Intn(len(terms))]
	}
	depth := 2 + r.Intn(7)
	maxLen := 10 + r.Intn(50)
	if r.Intn(12) == 0 {
		// long, deeply nested streams: a parser stack far deeper than any
		// fixed-size window
		maxLen = 60 + r.Intn(190)
		depth = 12 + r.Intn(30)
	}
	var names []string
	switch k := r.Intn(10); {
	case k < 6 && w.G0.Productive():
		ids, _ := w.G0.Derive(r, depth, maxLen)
		names = w.termNames(ids)
		run.Source = "sentence"
	case k < 9:
		ids, ok := w.GE.Derive(r, depth, maxLen)
		if !ok {
			ids = nil
		}
		run.Source = "error-sentence"
		for _, id := range ids {
			if id == w.GE.ErrorT {
				n := r.Intn(4)
				for j := 0; j < n; j++ {
					names = append(names, randTok())
				}
				continue
			}
			names = append(names, w.GE.Terms[id])
		}
	default:
		n := r.Intn(13)
		for j := 0; j < n; j++ {
			names = append(names, randTok())
		}
		run.Source = "random"
	}
	// faults on the stream as delivered
	nf := 0
	switch r.Intn(6) {
	case 0, 1:
		nf = 0
	case 2, 3:
		nf = 1
	case 4:
		nf = 2
	default:
		nf = 3 + r.Intn(2)
	}
	for f := 0; f < nf; f++ {
		pos := 0
		if len(names) > 0 {
			pos = r.Intn(len(names) + 1)
			if r.Intn(2) == 0 {
				// bias: right after a token that opens a construct with an @error alternative
				var cands []int
				for i, n := range names {
					if id := w.GE.Term(n); id >= 0 && w.ErrCtx[id] {
						cands = append(cands, i+1)
					}
				}
				if len(cands) > 0 {
					pos = cands[r.Intn(len(cands))]
				}
			}
		}
		switch r.Intn(7) {
		case 0: // drop
			if pos < len(names) {
				names = append(names[:pos:pos], names[pos+1:]...)
				run.Faults = append(run.Faults, fmt.Sprintf("drop@%d", pos))
			}
		case 1: // duplicate
			if pos < len(names) {
				names = append(names[:pos+1:pos+1], names[pos:]...)
				run.Faults = append(run.Faults, fmt.Sprintf("dup@%d", pos))
			}
		case 2: // swap with next
			if pos+1 < len(names) {
				names[pos], names[pos+1] = names[pos+1], names[pos]
				run.Faults = append(run.Faults, fmt.Sprintf("swap@%d", pos))
			}
		case 3: // substitute
			if pos < len(names) {
				names[pos] = terms[r.Intn(len(terms))]
				run.Faults = append(run.Faults, fmt.Sprintf("subst@%d=%s", pos, names[pos]))
			}
		case 4: // burst of lexer ERROR tokens
			n := 1 + r.Intn(5)
			burst := make([]string, n)
			for i := range burst {
				burst[i] = "ERROR"
			}
			names = append(names[:pos:pos], append(burst, names[pos:]...)...)
			run.Faults = append(run.Faults, fmt.Sprintf("errburst@%d+%d", pos, n))
		case 5: // premature EOF
			names = names[:pos]
			run.Faults = append(run.Faults, fmt.Sprintf("eof@%d", pos))
		case 6: // insert a random token
			t := randTok()
			names = append(names[:pos:pos], append([]string{t}, names[pos:]...)...)
			run.Faults = append(run.Faults, fmt.Sprintf("insert@%d=%s", pos, t))
		}
	}
	run.Tokens = names
	return run
}

// renderText turns token names into text for the real lexer (configuration b).
func (w *World) renderText(r *core.Rand, names []string) []byte {
	var sb strings.Builder
	for i, n := range names {
		if i > 0 {
			sb.WriteString([]string{" ", " ", "\n", "  ", "\t"}[r.Intn(5)])
		}
		if n == "ERROR" {
			sb.WriteString([]string{"$", "@", "~~", "\x01"}[r.Intn(4)])
			continue
		}
		if lit := w.E.Spec.LiteralOf(n); lit != "" {
			sb.WriteString(lit)
		} else if n == "NUM" {
			fmt.Fprintf(&sb, "%d", r.Intn(1000))
		} else {
			sb.WriteString("?")
		}
	}
	return []byte(sb.String())
}

func byteFaults(r *core.Rand, in []byte, run *C09Run) []byte {
	nf := r.Intn(4)
	for f := 0; f < nf && len(in) > 0; f++ {
		pos := r.Intn(len(in))
		switch r.Intn(6) {
		case 0:
			in = in[:pos]
			run.Faults = append(run.Faults, fmt.Sprintf("truncate@%d", pos))
		case 1:
			b := append([]byte{}, in...)
			b[pos] ^= 1 << uint(r.Intn(8))
			in = b
			run.Faults = append(run.Faults, fmt.Sprintf("bitflip@%d", pos))
		case 2:
			stray := []byte{0xff, '$', 0x80, '`', 0xc3}[r.Intn(5)]
			in = append(in[:pos:pos], append([]byte{stray}, in[pos:]...)...)
			run.Faults = append(run.Faults, fmt.Sprintf("stray@%d=%#x", pos, stray))
		case 3:
			n := 1 + r.Intn(6)
			if pos+n > len(in) {
				n = len(in) - pos
			}
			in = append(in[:pos:pos], in[pos+n:]...)
			run.Faults = append(run.Faults, fmt.Sprintf("delete@%d+%d", pos, n))
		case 4:
			b := append([]byte{}, in...)
			for i := range b {
				if b[i] == '\n' {
					b[i] = ' '
				}
			}
			in = b
			run.Faults = append(run.Faults, "newlines-removed")
		case 5:
			in = append(in[:pos:pos], append([]byte{'\n'}, in[pos:]...)...)
			run.Faults = append(run.Faults, fmt.Sprintf("newline@%d", pos))
		}
	}
	return in
}

// minimiseStub removes tokens while the signature stays the same.
func (w *World) minimiseStub(run *C09Run, sig map[string]string) *C09Run {
	cur := *run
	key := sigKey(sig)
	for changed := true; changed; {
		changed = false
		for i := len(cur.Tokens) - 1; i >= 0; i-- {
			cand := cur
			cand.Tokens = append(append([]string{}, cur.Tokens[:i]...), cur.Tokens[i+1:]...)
			s, _, _ := w.judgeC09(w.execParse(&cand))
			if s != nil && sigKey(s) == key {
				cur = cand
				changed = true
			}
		}
	}
	cur.Faults = append(cur.Faults, fmt.Sprintf("minimised from %d tokens", len(run.Tokens)))
	return &cur
}

func (w *World) minimiseReal(run *C09Run, sig map[string]string) *C09Run {
	cur := *run
	key := sigKey(sig)
	for changed := true; changed; {
		changed = false
		for i := len(cur.Input) - 1; i >= 0; i-- {
			cand := cur
			cand.Input = append(append([]byte{}, cur.Input[:i]...), cur.Input[i+1:]...)
			s, _, _ := w.judgeC09(w.execParse(&cand))
			if s != nil && sigKey(s) == key {
				cur = cand
				changed = true
			}
		}
	}
	return &cur
}

func (w *World) replayDoc(run *C09Run) any {
	return map[string]any{"mode": "c09", "run": run, "spec": w.E.Spec, "lox": w.E.Lox, "real_lexable": w.E.RealLexable}
}

// tooManyHangs: once a shard has seen this many budget verdicts the violation is
// established; exploring further would only burn the budget again and again.
func tooManyHangs(res *Result) bool { return res.Stats["budget_verdicts"] >= 25 }

func (w *World) oneC09(run *C09Run, res *Result, faultFree bool) {
	if tooManyHangs(res) {
		res.Stats["runs_skipped_after_hang_cap"]++
		return
	}
	o := w.execParse(run)
	if o.Verdict.Kind == "budget" {
		res.Stats["budget_verdicts"]++
	}
	sig, detail, fl := w.judgeC09(o)
	res.Runs++
	res.Stats["ticks"] += o.Verdict.Ticks
	res.Stats["tokens_delivered"] += int64(len(o.Delivered))
	res.Stats["lexer:"+run.Lexer]++
	for _, f := range run.Faults {
		if i := strings.Index(f, "@"); i > 0 {
			res.Stats["fault:"+f[:i]]++
		}
	}
	if fl.Sentence {
		res.Stats["input_is_sentence"]++
	} else {
		res.Stats["input_is_non_sentence"]++
	}
	if fl.ErrorsSeen {
		res.Stats["probe:error_delivered"]++
	}
	if fl.Recovered {
		res.Stats["probe:recovered_and_accepted"]++
	}
	if !o.Ret && o.Verdict.Kind == "ok" {
		res.Stats["probe:parse_returned_false"]++
	}
	if o.Rec.RecoversAtFirstError >= 2 {
		res.Stats["probe:cascade_before_first_delivery"]++
	}
	if len(run.Faults) > 0 || !fl.Sentence {
		res.markDistinct(hash64(run.Pkg, run.Lexer, run.Tokens, string(run.Input)))
	}
	if fl.Anomaly != "" {
		res.Stats["baseline_anomaly"]++
		res.note("baseline_anomaly pkg=%s tokens=%v: %s", run.Pkg, run.Tokens, fl.Anomaly)
	}
	if sig != nil {
		r2 := run
		if run.Lexer == "stub" {
			r2 = w.minimiseStub(run, sig)
		} else {
			r2 = w.minimiseReal(run, sig)
		}
		res.violation(sig, detail, func() any { return w.replayDoc(r2) })
		if v := res.vidx[sigKey(sig)]; v != nil && v.Count == 1 {
			o2 := w.execParse(r2)
			_, d2, _ := w.judgeC09(o2)
			v.Detail = fmt.Sprintf("%s\nminimised stream: %v %q -> returned %v, %d Error(s) delivered, %d ReadToken calls\nhistory:\n  %s\ngrammar:\n%s",
				d2, r2.Tokens, string(r2.Input), o2.Ret, len(o2.Rec.Errors), o2.Reads, strings.Join(o2.Rec.Log, "\n  "), w.E.Lox)
		}
	}
	if res.Runs%5003 == 1 {
		res.sample(map[string]any{"pkg": run.Pkg, "lexer": run.Lexer, "source": run.Source, "tokens": run.Tokens, "input": string(run.Input), "faults": run.Faults,
			"returned": o.Ret, "errors_delivered": len(o.Rec.Errors), "sentence": fl.Sentence, "ticks": o.Verdict.Ticks, "readtoken_calls": o.Reads})
	}
}

func runC09(ws []*World, seed uint64, runs, shard, nshard int, res *Result) {
	for wi, w := range ws {
		if wi%nshard != shard {
			continue
		}
		r := core.NewRand(core.Derive(seed, "c09-"+w.E.Pkg, 0))
		// Self-check of the models + fault-free configuration: every derived
		// sentence must be a member (else the oracle is broken: exit 2) and is
		// expected to parse cleanly (else baseline anomaly).
		if w.G0.Productive() {
			for i := 0; i < 30; i++ {
				ids, _ := w.G0.Derive(r, 2+r.Intn(6), 40)
				if !earley.Member(w.G0, ids) || !earley.Member(w.GE, ids) {
					res.Infra = fmt.Sprintf("self-check failed: derived sentence %v of %s is rejected by the reference recogniser", w.termNames(ids), w.E.Pkg)
					return
				}
				run := &C09Run{Pkg: w.E.Pkg, Lexer: "stub", Tokens: w.termNames(ids), Source: "fault-free"}
				w.oneC09(run, res, true)
				res.Stats["fault_free_runs"]++
			}
		} else {
			res.Stats["grammars_without_error_free_sentence"]++
		}
		// Systematic sweep: every token stream up to a length bound.
		terms := append(w.inputTerminals(), "ERROR")
		L := 1
		for total := len(terms); L < 6 && total*len(terms) <= 6000; L++ {
			total *= len(terms)
		}
		var sweep func(prefix []string)
		sweep = func(prefix []string) {
			run := &C09Run{Pkg: w.E.Pkg, Lexer: "stub", Tokens: append([]string{}, prefix...), Source: "sweep"}
			w.oneC09(run, res, false)
			res.Stats["sweep_runs"]++
			if len(prefix) == L {
				return
			}
			for _, t := range terms {
				sweep(append(prefix, t))
			}
		}
		sweep(nil)
		res.Stats["sweep_max_len:"+fmt.Sprint(L)]++
		// Single-substitution sweep: a few sentences, every position replaced
		// by every terminal in turn (and dropped). With a large alphabet the
		// length-bounded sweep above stops at two tokens; this one reaches
		// every state a sentence passes through with every terminal.
		if w.G0.Productive() {
			left := 2400
			for k := 0; k < 6 && left > 0; k++ {
				ids, _ := w.G0.Derive(r, 3+r.Intn(6), 12+r.Intn(40))
				base := w.termNames(ids)
				for pos := 0; pos < len(base) && left > 0; pos++ {
					for ti := -1; ti < len(terms) && left > 0; ti++ {
						var toks []string
						var fault string
						if ti < 0 {
							toks = append(append(toks, base[:pos]...), base[pos+1:]...)
							fault = fmt.Sprintf("drop@%d", pos)
						} else if terms[ti] == base[pos] {
							continue
						} else {
							toks = append(toks, base...)
							toks[pos] = terms[ti]
							fault = fmt.Sprintf("subst@%d=%s", pos, terms[ti])
						}
						w.oneC09(&C09Run{Pkg: w.E.Pkg, Lexer: "stub", Tokens: toks, Source: "substitution-sweep", Faults: []string{fault}}, res, false)
						res.Stats["substitution_sweep_runs"]++
						left--
					}
				}
			}
		}
		// Seeded streams with faults.
		for i := 0; i < runs; i++ {
			rr := core.NewRand(core.Derive(seed, "c09-"+w.E.Pkg, i+1))
			run := w.genStream(rr)
			if w.E.RealLexable && rr.Intn(3) == 0 {
				run.Lexer = "real"
				run.Input = byteFaults(rr, w.renderText(rr, run.Tokens), run)
				run.Tokens = nil
			}
			w.oneC09(run, res, false)
		}
	}
}

func replayC09(ws []*World, path string, res *Result) {
	data, err := os.ReadFile(path)
	if err != nil {
		res.Infra = err.Error()
		return
	}
	var doc struct {
		Run *C09Run `json:"run"`
	}
	if err := json.Unmarshal(data, &doc); err != nil || doc.Run == nil {
		res.Infra = "bad replay file"
		return
	}
	for _, w := range ws {
		if w.E.Pkg == doc.Run.Pkg {
			o := w.execParse(doc.Run)
			sig, detail, _ := w.judgeC09(o)
			res.Runs++
			if sig != nil {
				detail = fmt.Sprintf("%s\nstream: %v %q -> returned %v, %d Error(s) delivered\nhistory:\n  %s", detail, doc.Run.Tokens, string(doc.Run.Input), o.Ret, len(o.Rec.Errors), strings.Join(o.Rec.Log, "\n  "))
				res.violation(sig, detail, func() any { return w.replayDoc(doc.Run) })
			}
			return
		}
	}
	res.Infra = "replay: package not linked: " + doc.Run.Pkg
}

var _ = specgen.One
