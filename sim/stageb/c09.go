package stageb

import (
	"embed"
	"encoding/json"
	"fmt"
	"os"
	"sort"
	"time"

	"verifsim/core"
	"verifsim/specgen"
	"verifsim/stagea"
)

//go:embed corpus/*.json
var corpusFS embed.FS

// corpusSpecs are fixed specifications that every C09 world includes first:
// the failing inputs of the known findings, so that each listed finding is
// re-found (and printed as KNOWN-FINDING) on every run, in every tier.
func corpusSpecs() []*specgen.Spec {
	var out []*specgen.Spec
	ents, _ := corpusFS.ReadDir("corpus")
	for _, e := range ents {
		data, err := corpusFS.ReadFile("corpus/" + e.Name())
		if err != nil {
			continue
		}
		var s specgen.Spec
		if json.Unmarshal(data, &s) == nil && len(s.Rules) > 0 {
			out = append(out, &s)
		}
	}
	return out
}

func parserCandidate(seed uint64) Candidate {
	corpus := corpusSpecs()
	return func(i int) (*specgen.Spec, bool) {
		if i < len(corpus) {
			b, _ := json.Marshal(corpus[i])
			var c specgen.Spec
			json.Unmarshal(b, &c)
			return &c, true
		}
		// every ninth candidate is a directed one: alternately a grammar with
		// 40 or more terminals (families wide, chains) and one of the family
		// pending-errors; the others keep the sequence they had before these
		// were added
		if j := i - len(corpus); j%9 == 8 {
			if (j/9)%2 == 1 {
				return specgen.Generate(core.Derive(seed, "c09-pending-spec", j/9), specgen.Options{RichParser: true, RealLexable: true, Family: "pending-errors"}), true
			}
			return specgen.Generate(core.Derive(seed, "c09-wide-spec", j/9), specgen.Options{RichParser: true, RealLexable: true, Wide: true}), true
		}
		i -= (i - len(corpus) + 1) / 9
		s := specgen.Generate(core.Derive(seed, "c09-spec", i), specgen.Options{RichParser: true, RealLexable: true})
		return s, true
	}
}

func report(rep *core.Reporter, res *Result) {
	sort.Slice(res.Violations, func(i, j int) bool {
		return core.Signature(res.Violations[i].Sig).String() < core.Signature(res.Violations[j].Sig).String()
	})
	for _, v := range res.Violations {
		var replay any
		json.Unmarshal(v.Replay, &replay)
		rep.Report(core.Signature(v.Sig), fmt.Sprintf("%s\n(%d runs with this signature)", v.Detail, v.Count), replay)
	}
	for _, n := range res.Notes {
		rep.Note("%s", n)
	}
}

// newViolations counts the violations that are not listed known findings.
func newViolations(rep *core.Reporter, res *Result) int {
	n := 0
	for _, v := range res.Violations {
		if !rep.IsKnown(core.Signature(v.Sig)) {
			n++
		}
	}
	return n
}

func probeText(h string) string {
	if h == "" {
		return "skipped: a violation was already established (shared mutable state makes results depend on earlier runs)"
	}
	return "same seed re-run with 14 shards/GOMAXPROCS=4 and 5 shards/GOMAXPROCS=1: all counters identical, hash " + h
}

func statsSubset(stats map[string]int64, prefix string) map[string]int64 {
	out := map[string]int64{}
	for k, v := range stats {
		if len(k) > len(prefix) && k[:len(prefix)] == prefix {
			out[k[len(prefix):]] = v
		}
	}
	return out
}

func CheckC09(tier string, seed uint64, rep *core.Reporter) (*core.Evidence, error) {
	start := time.Now()
	n, runs, batches := 28, 4000, 1
	if tier == "thorough" {
		n, runs, batches = 138, 30000, 3
	}
	if v := os.Getenv("VERIF_C09_GRAMMARS"); v != "" {
		fmt.Sscan(v, &n)
	}
	total := &Result{Stats: map[string]int64{}}
	detHash := ""
	rejected := 0
	reasons := map[string]int{}
	families := map[string]int{}
	var genWall, buildWall time.Duration
	yields := 0
	for b := 0; b < batches; b++ {
		bseed := core.Derive(seed, "c09-batch", b)
		w, err := Build("C09", n, parserCandidate(bseed), false)
		if err != nil {
			return nil, err
		}
		res, err := w.RunShards(w.Runsim, "c09", bseed, runs, 14, nil, nil, 40*time.Minute)
		if err == nil && b == 0 && newViolations(rep, res) == 0 {
			detHash, err = w.DeterminismProbe(w.Runsim, "c09", bseed, 200, nil)
		}
		rejected += w.Rejected
		for k, v := range w.Reasons {
			reasons[k] += v
		}
		for _, e := range w.Entries {
			families[e.Spec.Family]++
		}
		genWall += w.GenWall
		buildWall += w.BuildWall
		yields += w.YieldSites
		w.Close()
		if err != nil {
			return nil, err
		}
		total.Runs += res.Runs
		total.Distinct += res.Distinct
		for k, v := range res.Stats {
			total.Stats[k] += v
		}
		total.Violations = append(total.Violations, res.Violations...)
		total.Notes = append(total.Notes, res.Notes...)
		if len(total.Samples) < 8 {
			total.Samples = append(total.Samples, res.Samples...)
		}
	}
	report(rep, total)
	wall := time.Since(start).Seconds()
	if len(total.Samples) == 0 {
		total.Samples = append(total.Samples, "no sample recorded")
	}
	ev := &core.Evidence{
		PropertyID: "C09", Tier: tier, Seed: int64(seed), Level: "fault_enumeration",
		Coverage: map[string]any{
			"evaluations":         total.Runs,
			"distinct_nontrivial": total.Distinct,
			"rule": "one evaluation = one simulated parse() of a generated parser (real generated code, compiled) fed through the _Lexer seam; streams come from (i) error-free derivations, (ii) derivations with @error stretches replaced by garbage, (iii) random strings, each with 0-4 stream faults (drop, dup, swap, subst, insert, lexer-ERROR burst, premature EOF), (iv) a systematic sweep of every stream up to a small length per grammar, (v) byte input through the real simplelexer + generated state machine with byte faults. " +
				"distinct_nontrivial = distinct (grammar, lexer configuration, delivered stream) among runs whose stream is a non-sentence or carries a fault; seeded, not exhaustive (except the bounded sweep)",
			"samples":                 total.Samples,
			"exhaustive":              false,
			"grammars":                n * batches,
			"grammar_families":        families,
			"specs_rejected_by_lox":   rejected,
			"rejection_reasons":       reasons,
			"fault_kinds_fired":       statsSubset(total.Stats, "fault:"),
			"lexer_configurations":    statsSubset(total.Stats, "lexer:"),
			"probes":                  statsSubset(total.Stats, "probe:"),
			"sweep_runs":              total.Stats["sweep_runs"],
			"fault_free_runs":         total.Stats["fault_free_runs"],
			"baseline_anomalies":      total.Stats["baseline_anomaly"],
			"inputs_sentences":        total.Stats["input_is_sentence"],
			"inputs_non_sentences":    total.Stats["input_is_non_sentence"],
			"logical_steps_ticks":     total.Stats["ticks"],
			"tokens_delivered":        total.Stats["tokens_delivered"],
			"p4_tick_sites":           yields,
			"runs_per_hour":           int(float64(total.Runs) / wall * 3600),
			"world_generation_s":      genWall.Seconds(),
			"world_build_s":           buildWall.Seconds(),
			"simulated_time":          "none: the generated code reads no clock; logical steps (ticks) only",
			"components_real":         []string{"lox binary built from the current tree (generates every parser and lexer)", "generated parse/_recover/_readToken/_makeError/_act/_Find compiled by the Go compiler", "generated _LexerStateMachine and unmodified simplelexer in configuration b"},
			"components_simulated":    []string{"token stream at _Lexer.ReadToken (stub lexer = fault injector)", "byte stream into simplelexer (configuration b)", "liveness budget in P4 ticks"},
			"components_stubbed":      []string{"the lexer in configuration a (stub implementing _Lexer)"},
			"reference_models":        []string{"Earley recogniser over the grammar expanded from the spec model (@error as terminal ERROR)", "the same grammar without @error productions"},
			"determinism_probe":      probeText(detHash),
			"stats_hash":             total.StatsHash(),
			"known_findings_hit":      rep.KnownHits,
		},
		Assumptions: []string{
			"grammars use @left/@right only in the binary-infix shape, where conflict resolution keeps the language",
			"the tick budget 1e5 + 20(n+2)^2 * productions * terminals exceeds the cost of any terminating parse of n tokens",
			"an Error value delivered after two or more recoveries (an earlier @error symbol was popped by a later recovery) is classified shape=cascade",
		},
		WallS: wall,
	}
	return ev, nil
}

// ReplayB rebuilds the grammar package recorded in a replay file from the
// current tree and re-executes the recorded run.
func ReplayB(id, path string, rep *core.Reporter) (int, error) {
	data, err := os.ReadFile(path)
	if err != nil {
		return 2, stagea.Infra("%v", err)
	}
	var doc struct {
		Signature core.Signature `json:"signature"`
		Replay    struct {
			Mode  string           `json:"mode"`
			Spec  *specgen.Spec    `json:"spec"`
			Specs []*specgen.Spec  `json:"specs"`
			Lexable bool           `json:"real_lexable"`
		} `json:"replay"`
	}
	if err := json.Unmarshal(data, &doc); err != nil {
		return 2, stagea.Infra("bad replay file: %v", err)
	}
	var raw struct {
		Replay json.RawMessage `json:"replay"`
	}
	json.Unmarshal(data, &raw)
	specs := doc.Replay.Specs
	if doc.Replay.Spec != nil {
		specs = append(specs, doc.Replay.Spec)
	}
	if len(specs) == 0 {
		return 2, stagea.Infra("replay file holds no specification")
	}
	w, err := BuildFixed(id+"r", specs, doc.Replay.Lexable, doc.Replay.Mode == "c18")
	if err != nil {
		return 2, err
	}
	defer w.Close()
	rp := w.T.Base + "/replay.json"
	os.WriteFile(rp, raw.Replay, 0o644)
	out := w.T.Base + "/replay-result.json"
	res, err := runHarness(w.Runsim, []string{"-mode", doc.Replay.Mode, "-specs", w.SpecsPath, "-out", out, "-replay", rp}, out, nil, 10*time.Minute)
	if err != nil {
		return 2, err
	}
	if res.Infra != "" {
		return 2, stagea.Infra("harness: %s", res.Infra)
	}
	if len(res.Violations) == 0 {
		fmt.Printf("replay: no violation reproduced (recorded: %s)\n", doc.Signature.String())
		return 0, nil
	}
	rep.ReplayPath = path
	for _, v := range res.Violations {
		if core.Signature(v.Sig).String() != doc.Signature.String() {
			fmt.Printf("replay: signature differs from the recorded one (%s)\n", doc.Signature.String())
		}
		rep.Report(core.Signature(v.Sig), v.Detail, nil)
	}
	if len(rep.Violations) == 0 {
		return 0, nil
	}
	return 1, nil
}
