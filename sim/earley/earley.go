// Package earley is the reference model for C09: a context-free grammar
// expanded from the spec model by the documented reading of lox's sugar, an
// Earley recogniser with a viable-prefix test, and a random sentence deriver.
// It never looks at lox's tables or grammar objects.
package earley

import (
	"fmt"

	"verifsim/specgen"
)

type Sym struct {
	T  bool
	ID int
}

type Prod struct {
	LHS int
	RHS []Sym
}

type Grammar struct {
	Terms  []string // terminal names; "ERROR" is one of them
	NTs    []string
	Prods  []Prod
	Start  int
	ErrorT int // id of the ERROR terminal

	// Unproductive lists the non-terminals that derive no terminal string
	// (removed from Prods by finish): a grammar with any is not reduced.
	Unproductive []string

	byLHS    [][]int
	nullable []bool
	minH     []int // minimal derivation height per NT (large = unproductive)
	prodMinH []int
	tIdx     map[string]int
	ntIdx    map[string]int
}

const inf = 1 << 30

func (g *Grammar) Term(name string) int {
	if i, ok := g.tIdx[name]; ok {
		return i
	}
	return -1
}

// FromSpec expands the parser section: x? = x | e ; x* = e | x+ ; x+ = x+ x | x ;
// @list(x,s) = @list(x,s) s x | x ; @list(x,s)? = @list(x,s) | e ; @error is the
// ordinary terminal ERROR.
func FromSpec(s *specgen.Spec) *Grammar {
	g := &Grammar{tIdx: map[string]int{}, ntIdx: map[string]int{}}
	addT := func(n string) int {
		if i, ok := g.tIdx[n]; ok {
			return i
		}
		g.tIdx[n] = len(g.Terms)
		g.Terms = append(g.Terms, n)
		return len(g.Terms) - 1
	}
	g.ErrorT = addT("ERROR")
	for _, n := range s.TokenNames() {
		addT(n)
	}
	addNT := func(n string) (int, bool) {
		if i, ok := g.ntIdx[n]; ok {
			return i, false
		}
		g.ntIdx[n] = len(g.NTs)
		g.NTs = append(g.NTs, n)
		return len(g.NTs) - 1, true
	}
	for _, r := range s.Rules {
		addNT(r.Name)
	}
	var simple func(t *specgen.Term) (Sym, string)
	simple = func(t *specgen.Term) (Sym, string) {
		switch t.Kind {
		case specgen.KTok:
			return Sym{T: true, ID: addT(t.Name)}, t.Name
		case specgen.KErr:
			return Sym{T: true, ID: g.ErrorT}, "ERROR"
		default:
			id, _ := addNT(t.Name)
			return Sym{ID: id}, t.Name
		}
	}
	plus := func(x Sym, name string) Sym {
		id, fresh := addNT(name + "+")
		if fresh {
			g.Prods = append(g.Prods, Prod{id, []Sym{{ID: id}, x}}, Prod{id, []Sym{x}})
		}
		return Sym{ID: id}
	}
	var term func(t *specgen.Term) Sym
	term = func(t *specgen.Term) Sym {
		if t.Kind == specgen.KList {
			e, en := simple(t.Elem)
			sp, sn := simple(t.Sep)
			name := "@list(" + en + "," + sn + ")"
			id, fresh := addNT(name)
			if fresh {
				g.Prods = append(g.Prods, Prod{id, []Sym{{ID: id}, sp, e}}, Prod{id, []Sym{e}})
			}
			if t.ListOpt {
				oid, fresh := addNT(name + "?")
				if fresh {
					g.Prods = append(g.Prods, Prod{oid, []Sym{{ID: id}}}, Prod{oid, nil})
				}
				return Sym{ID: oid}
			}
			return Sym{ID: id}
		}
		x, name := simple(t)
		switch t.Card {
		case specgen.Opt:
			id, fresh := addNT(name + "?")
			if fresh {
				g.Prods = append(g.Prods, Prod{id, []Sym{x}}, Prod{id, nil})
			}
			return Sym{ID: id}
		case specgen.Plus:
			return plus(x, name)
		case specgen.Star, specgen.StarF:
			p := plus(x, name)
			id, fresh := addNT(name + "*")
			if fresh {
				g.Prods = append(g.Prods, Prod{id, []Sym{p}}, Prod{id, nil})
			}
			return Sym{ID: id}
		}
		return x
	}
	for _, r := range s.Rules {
		lhs := g.ntIdx[r.Name]
		for _, p := range r.Prods {
			var rhs []Sym
			for _, t := range p.Terms {
				rhs = append(rhs, term(t))
			}
			g.Prods = append(g.Prods, Prod{lhs, rhs})
		}
	}
	g.Start = g.ntIdx[s.Rules[s.Start].Name]
	g.finish()
	return g
}

// WithoutError returns the grammar with every production mentioning ERROR
// removed: L(G) proper, the sentences an input can actually be.
func (g *Grammar) WithoutError() *Grammar {
	h := &Grammar{Terms: g.Terms, NTs: g.NTs, Start: g.Start, ErrorT: g.ErrorT, tIdx: g.tIdx, ntIdx: g.ntIdx}
	for _, p := range g.Prods {
		has := false
		for _, s := range p.RHS {
			if s.T && s.ID == g.ErrorT {
				has = true
			}
		}
		if !has {
			h.Prods = append(h.Prods, p)
		}
	}
	h.finish()
	return h
}

// finish prunes unproductive non-terminals (so that a non-empty Earley set is
// exactly a viable prefix) and computes nullability and minimal heights.
func (g *Grammar) finish() {
	n := len(g.NTs)
	g.minH = make([]int, n)
	for i := range g.minH {
		g.minH[i] = inf
	}
	changed := true
	for changed {
		changed = false
		for _, p := range g.Prods {
			h := 0
			for _, s := range p.RHS {
				if !s.T {
					if g.minH[s.ID] == inf {
						h = inf
						break
					}
					if g.minH[s.ID] > h {
						h = g.minH[s.ID]
					}
				}
			}
			if h != inf && h+1 < g.minH[p.LHS] {
				g.minH[p.LHS] = h + 1
				changed = true
			}
		}
	}
	g.Unproductive = nil
	for i, h := range g.minH {
		if h == inf {
			g.Unproductive = append(g.Unproductive, g.NTs[i])
		}
	}
	var kept []Prod
	for _, p := range g.Prods {
		ok := g.minH[p.LHS] != inf
		for _, s := range p.RHS {
			if !s.T && g.minH[s.ID] == inf {
				ok = false
			}
		}
		if ok {
			kept = append(kept, p)
		}
	}
	g.Prods = kept
	g.byLHS = make([][]int, n)
	g.prodMinH = make([]int, len(g.Prods))
	for i, p := range g.Prods {
		g.byLHS[p.LHS] = append(g.byLHS[p.LHS], i)
		h := 0
		for _, s := range p.RHS {
			if !s.T && g.minH[s.ID] > h {
				h = g.minH[s.ID]
			}
		}
		g.prodMinH[i] = h + 1
	}
	g.nullable = make([]bool, n)
	changed = true
	for changed {
		changed = false
		for _, p := range g.Prods {
			if g.nullable[p.LHS] {
				continue
			}
			all := true
			for _, s := range p.RHS {
				if s.T || !g.nullable[s.ID] {
					all = false
					break
				}
			}
			if all {
				g.nullable[p.LHS] = true
				changed = true
			}
		}
	}
}

// Productive reports whether the start symbol derives any terminal string.
func (g *Grammar) Productive() bool { return g.minH[g.Start] != inf }

// ---------------------------------------------------------------------------
// Recogniser.

type item struct {
	prod, dot, origin int
}

type Recognizer struct {
	g    *Grammar
	sets [][]item
	idx  []map[item]bool
}

func NewRecognizer(g *Grammar) *Recognizer {
	r := &Recognizer{g: g}
	r.Reset()
	return r
}

func (r *Recognizer) add(k int, it item) {
	if r.idx[k][it] {
		return
	}
	r.idx[k][it] = true
	r.sets[k] = append(r.sets[k], it)
}

func (r *Recognizer) closure(k int) {
	g := r.g
	for i := 0; i < len(r.sets[k]); i++ {
		it := r.sets[k][i]
		p := g.Prods[it.prod]
		if it.dot < len(p.RHS) {
			s := p.RHS[it.dot]
			if !s.T {
				for _, pi := range g.byLHS[s.ID] {
					r.add(k, item{pi, 0, k})
				}
				if g.nullable[s.ID] {
					r.add(k, item{it.prod, it.dot + 1, it.origin})
				}
			}
			continue
		}
		// completion
		for j := 0; j < len(r.sets[it.origin]); j++ {
			o := r.sets[it.origin][j]
			op := g.Prods[o.prod]
			if o.dot < len(op.RHS) && !op.RHS[o.dot].T && op.RHS[o.dot].ID == p.LHS {
				r.add(k, item{o.prod, o.dot + 1, o.origin})
			}
		}
	}
}

func (r *Recognizer) Reset() {
	r.sets = r.sets[:0]
	r.idx = r.idx[:0]
	r.sets = append(r.sets, nil)
	r.idx = append(r.idx, map[item]bool{})
	if !r.g.Productive() {
		return
	}
	for _, pi := range r.g.byLHS[r.g.Start] {
		r.add(0, item{pi, 0, 0})
	}
	r.closure(0)
}

// Feed advances over terminal t and reports whether the input so far is still
// a prefix of some sentence. After a false result the recogniser is dead.
func (r *Recognizer) Feed(t int) bool {
	k := len(r.sets) - 1
	r.sets = append(r.sets, nil)
	r.idx = append(r.idx, map[item]bool{})
	for _, it := range r.sets[k] {
		p := r.g.Prods[it.prod]
		if it.dot < len(p.RHS) && p.RHS[it.dot].T && p.RHS[it.dot].ID == t {
			r.add(k+1, item{it.prod, it.dot + 1, it.origin})
		}
	}
	r.closure(k + 1)
	return len(r.sets[k+1]) > 0
}

// Viable reports whether the input fed so far is a prefix of some sentence.
func (r *Recognizer) Viable() bool { return len(r.sets[len(r.sets)-1]) > 0 }

// Accepts reports whether the input fed so far is a sentence.
func (r *Recognizer) Accepts() bool {
	k := len(r.sets) - 1
	for _, it := range r.sets[k] {
		p := r.g.Prods[it.prod]
		if it.origin == 0 && it.dot == len(p.RHS) && p.LHS == r.g.Start {
			return true
		}
	}
	return false
}

// Expected returns the terminals that can follow the input fed so far.
func (r *Recognizer) Expected() []int {
	k := len(r.sets) - 1
	seen := map[int]bool{}
	var out []int
	for _, it := range r.sets[k] {
		p := r.g.Prods[it.prod]
		if it.dot < len(p.RHS) && p.RHS[it.dot].T && !seen[p.RHS[it.dot].ID] {
			seen[p.RHS[it.dot].ID] = true
			out = append(out, p.RHS[it.dot].ID)
		}
	}
	return out
}

func Member(g *Grammar, w []int) bool {
	r := NewRecognizer(g)
	for _, t := range w {
		if !r.Feed(t) {
			return false
		}
	}
	return r.Accepts()
}

// FirstNonViable returns the least i such that w[:i+1] is not a prefix of any
// sentence, or len(w) if all of w is viable.
func FirstNonViable(g *Grammar, w []int) int {
	r := NewRecognizer(g)
	for i, t := range w {
		if !r.Feed(t) {
			return i
		}
	}
	return len(w)
}

// ---------------------------------------------------------------------------
// Random derivation.

type Chooser interface{ Intn(n int) int }

// Derive returns a random sentence of g (terminal ids), or nil,false if g has
// none. depth bounds the nesting after which minimal-height productions are
// forced; maxLen bounds the length after which the same is done.
func (g *Grammar) Derive(c Chooser, depth, maxLen int) ([]int, bool) {
	if !g.Productive() {
		return nil, false
	}
	var out []int
	var expand func(nt, d int)
	expand = func(nt, d int) {
		prods := g.byLHS[nt]
		var pi int
		if d <= 0 || len(out) > maxLen {
			best := prods[0]
			for _, p := range prods {
				if g.prodMinH[p] < g.prodMinH[best] {
					best = p
				}
			}
			pi = best
		} else {
			pi = prods[c.Intn(len(prods))]
			// While the sentence is still short, mostly take the longest
			// alternative: with a uniform choice recursive lists are
			// geometrically short and deep parser stacks never occur.
			if len(out) < maxLen/2 && c.Intn(8) > 0 {
				for _, alt := range prods {
					if len(g.Prods[alt].RHS) > len(g.Prods[pi].RHS) {
						pi = alt
					}
				}
			}
		}
		for _, s := range g.Prods[pi].RHS {
			if s.T {
				out = append(out, s.ID)
			} else {
				expand(s.ID, d-1)
			}
		}
	}
	expand(g.Start, depth)
	return out, true
}

func (g *Grammar) String() string {
	s := ""
	for _, p := range g.Prods {
		s += g.NTs[p.LHS] + " ->"
		for _, x := range p.RHS {
			if x.T {
				s += " " + g.Terms[x.ID]
			} else {
				s += " <" + g.NTs[x.ID] + ">"
			}
		}
		s += "\n"
	}
	return fmt.Sprintf("start <%s>\n%s", g.NTs[g.Start], s)
}
