// Package core holds what every check shares: the seeded choice source with
// its trace, evidence files, known-findings matching and violation reports.
package core

import (
	"encoding/json"
	"fmt"
	"os"
	"path/filepath"
	"sort"
	"strings"
	"sync"
	"time"
)

// ---------------------------------------------------------------------------
// One integer decides everything.

type Rand struct {
	s [4]uint64
}

func splitmix(x *uint64) uint64 {
	*x += 0x9e3779b97f4a7c15
	z := *x
	z = (z ^ (z >> 30)) * 0xbf58476d1ce4e5b9
	z = (z ^ (z >> 27)) * 0x94d049bb133111eb
	return z ^ (z >> 31)
}

func NewRand(seed uint64) *Rand {
	r := &Rand{}
	x := seed
	for i := range r.s {
		r.s[i] = splitmix(&x)
	}
	return r
}

func rotl(x uint64, k uint) uint64 { return (x << k) | (x >> (64 - k)) }

// Uint64 is xoshiro256**.
func (r *Rand) Uint64() uint64 {
	res := rotl(r.s[1]*5, 7) * 9
	t := r.s[1] << 17
	r.s[2] ^= r.s[0]
	r.s[3] ^= r.s[1]
	r.s[1] ^= r.s[2]
	r.s[0] ^= r.s[3]
	r.s[2] ^= t
	r.s[3] = rotl(r.s[3], 45)
	return res
}

func (r *Rand) Intn(n int) int {
	if n <= 1 {
		return 0
	}
	return int(r.Uint64() % uint64(n))
}

func (r *Rand) Bool(pctTrue int) bool { return r.Intn(100) < pctTrue }

// Derive returns an independent stream for sub-run i.
func Derive(seed uint64, salt string, i int) uint64 {
	x := seed ^ 0xa0761d6478bd642f
	for _, c := range []byte(salt) {
		x = (x ^ uint64(c)) * 0x100000001b3
	}
	x ^= uint64(i) * 0xe7037ed1a0b428db
	return splitmix(&x)
}

func Seed() uint64 {
	if s := os.Getenv("VERIF_SEED"); s != "" {
		var v uint64
		if _, err := fmt.Sscan(s, &v); err == nil {
			return v
		}
		var iv int64
		if _, err := fmt.Sscan(s, &iv); err == nil {
			return uint64(iv)
		}
	}
	return 1
}

// ---------------------------------------------------------------------------
// Evidence.

type Evidence struct {
	PropertyID  string         `json:"property_id"`
	Tier        string         `json:"tier"`
	Seed        int64          `json:"seed"`
	Level       string         `json:"level"`
	Coverage    map[string]any `json:"coverage"`
	Assumptions []string       `json:"assumptions"`
	WallS       float64        `json:"wall_s"`
	Violations  int            `json:"violations"`
}

func VerifDir() string {
	if d := os.Getenv("VERIF_DIR"); d != "" {
		return d
	}
	return "/verif"
}

func (e *Evidence) Write() error {
	dir := filepath.Join(VerifDir(), "evidence")
	os.MkdirAll(dir, 0o755)
	b, err := json.MarshalIndent(e, "", " ")
	if err != nil {
		return err
	}
	return os.WriteFile(filepath.Join(dir, e.PropertyID+".json"), append(b, '\n'), 0o644)
}

// ---------------------------------------------------------------------------
// Known findings.

type Finding struct {
	Property string            `json:"property"`
	ID       string            `json:"id"`
	Match    map[string]string `json:"match"`
	What     string            `json:"what"`
	Status   string            `json:"status"`
}

type KnownFile struct {
	Findings []Finding `json:"findings"`
	Fixed    []string  `json:"fixed"`
}

func LoadKnown() (*KnownFile, error) {
	var k KnownFile
	b, err := os.ReadFile(filepath.Join(VerifDir(), "known_findings.json"))
	if err != nil {
		if os.IsNotExist(err) {
			return &k, nil
		}
		return nil, err
	}
	if err := json.Unmarshal(b, &k); err != nil {
		return nil, err
	}
	return &k, nil
}

// Signature identifies a violation: class plus the keys that locate it.
type Signature map[string]string

func (s Signature) String() string {
	keys := make([]string, 0, len(s))
	for k := range s {
		keys = append(keys, k)
	}
	sort.Strings(keys)
	var sb strings.Builder
	for i, k := range keys {
		if i > 0 {
			sb.WriteString(" ")
		}
		fmt.Fprintf(&sb, "%s=%q", k, s[k])
	}
	return sb.String()
}

func (k *KnownFile) Lookup(prop string, sig Signature) *Finding {
	for i := range k.Findings {
		f := &k.Findings[i]
		if f.Property != prop || f.Status != "known" {
			continue
		}
		ok := len(f.Match) > 0
		for mk, mv := range f.Match {
			if sig[mk] != mv {
				ok = false
				break
			}
		}
		if ok {
			return f
		}
	}
	return nil
}

// ---------------------------------------------------------------------------
// Reporter: collects violations for one check run.

type Violation struct {
	Sig    Signature
	Replay string
	Detail string
}

type Reporter struct {
	Prop       string
	Tier       string
	SeedV      uint64
	Start      time.Time
	mu         sync.Mutex
	known      *KnownFile
	Violations []Violation
	KnownHits  map[string]int
	Notes      []string
	replayN    int
	ReplayPath string // set in replay mode: violations refer to this file, nothing is written
	seenSig    map[string]bool
}

func NewReporter(prop, tier string, seed uint64) (*Reporter, error) {
	k, err := LoadKnown()
	if err != nil {
		return nil, err
	}
	return &Reporter{Prop: prop, Tier: tier, SeedV: seed, Start: time.Now(), known: k,
		KnownHits: map[string]int{}, seenSig: map[string]bool{}}, nil
}

// CleanReplays removes replay files of earlier runs of this property and seed
// (called by a check run, never by a replay).
func (r *Reporter) CleanReplays() {
	old, _ := filepath.Glob(filepath.Join(VerifDir(), "replays", fmt.Sprintf("%s-%d-*.json", r.Prop, r.SeedV)))
	for _, f := range old {
		os.Remove(f)
	}
}

// Report registers a violation. replay is any JSON-serialisable description
// sufficient to re-execute it. Violations with a signature already reported in
// this run are counted but not written again.
func (r *Reporter) Report(sig Signature, detail string, replay any) {
	r.mu.Lock()
	defer r.mu.Unlock()
	if f := r.known.Lookup(r.Prop, sig); f != nil {
		if r.KnownHits[f.ID] == 0 {
			fmt.Printf("KNOWN-FINDING: property=%s %s (%s)\n", r.Prop, f.ID, f.What)
		}
		r.KnownHits[f.ID]++
		return
	}
	key := sig.String()
	if r.seenSig[key] {
		for i := range r.Violations {
			if r.Violations[i].Sig.String() == key {
				return
			}
		}
	}
	r.seenSig[key] = true
	r.replayN++
	path := r.ReplayPath
	if path == "" {
		dir := filepath.Join(VerifDir(), "replays")
		os.MkdirAll(dir, 0o755)
		path = filepath.Join(dir, fmt.Sprintf("%s-%d-%d.json", r.Prop, r.SeedV, r.replayN))
		doc := map[string]any{"property": r.Prop, "tier": r.Tier, "seed": r.SeedV, "signature": sig, "detail": detail, "replay": replay}
		b, _ := json.MarshalIndent(doc, "", " ")
		os.WriteFile(path, append(b, '\n'), 0o644)
	}
	r.Violations = append(r.Violations, Violation{Sig: sig, Replay: path, Detail: detail})
	fmt.Printf("VIOLATION property=%s replay=%s\n", r.Prop, path)
	fmt.Printf("  signature: %s\n", key)
	if detail != "" {
		for _, l := range strings.Split(strings.TrimRight(detail, "\n"), "\n") {
			fmt.Printf("  | %s\n", l)
		}
	}
}

// IsKnown reports whether a signature matches a listed known finding.
func (r *Reporter) IsKnown(sig Signature) bool { return r.known.Lookup(r.Prop, sig) != nil }

func (r *Reporter) Note(format string, a ...any) {
	r.mu.Lock()
	defer r.mu.Unlock()
	msg := fmt.Sprintf(format, a...)
	r.Notes = append(r.Notes, msg)
	fmt.Printf("NOTE: %s\n", msg)
}

func (r *Reporter) ExitCode() int {
	if len(r.Violations) > 0 {
		return 1
	}
	return 0
}
