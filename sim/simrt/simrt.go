// Package simrt is the simulation runtime that the instrumenter links into a
// scratch copy of dcaiafa/lox. It owns every source of nondeterminism the
// generator meets: map iteration order (MapKeys), file-system calls and the
// `go list` subprocess (wrappers in os.go), process death (crash at a seam
// call) and liveness (Tick budget). It is configured by an operation
// descriptor (JSON file named by VERIF_OP). Without VERIF_OP every wrapper is
// the identity and MapKeys yields ascending canonical order.
//
// This file is copied verbatim into <scratch>/internal/zzverif/simrt; it must
// only import the standard library and modules lox itself requires.
package simrt

import (
	"encoding/json"
	"fmt"
	"os"
	"reflect"
	"sort"
	"strconv"
	"strings"
	"sync"
)

// Exit codes reserved by the simulator. They never collide with lox's own
// (0, 1) nor with the Go runtime's panic exit (2).
const (
	ExitTickBudget = 97 // liveness budget exhausted
	ExitSimCrash   = 98 // crash injected by the simulator at a seam call
	ExitSimInfra   = 96 // the simulator itself is misconfigured
)

type Fault struct {
	Call  int    `json:"call,omitempty"`  // 1-based index over all seam calls; 0 = match by Fn
	Fn    string `json:"fn,omitempty"`    // e.g. "packages.Load"; used when Call == 0
	Kind  string `json:"kind"`            // crash | errno | error
	Torn  string `json:"torn,omitempty"`  // crash on WriteFile: none | trunc0 | prefix | full
	Pct   int    `json:"pct,omitempty"`   // prefix percentage for torn=prefix / short writes
	Errno string `json:"errno,omitempty"` // ENOENT EACCES EIO ENOSPC
	Short bool   `json:"short,omitempty"` // errno on WriteFile: a prefix was written before the error
}

type MapCfg struct {
	Mode string `json:"mode"` // asc | desc | shuffle | rotate
	Seed uint64 `json:"seed"`
}

type OpDesc struct {
	Run     string  `json:"run"`
	Op      int     `json:"op"`
	Map     MapCfg  `json:"map"`
	Faults  []Fault `json:"faults"`
	Ticks   int64   `json:"ticks"`
	Sidecar string  `json:"sidecar"`
	// ClockSkewHours shifts simrt.Now (the replacement of time.Now).
	ClockSkewHours int `json:"clock_skew_hours"`
}

var (
	mu       sync.Mutex
	active   bool
	op       OpDesc
	side     *os.File
	calls    int
	ticks    int64
	budget   int64 = 1 << 62
	siteSeen       = map[string]int{}
	tiesSeen int
	fired    []string
)

// Init reads VERIF_OP. Called from the main() the instrumenter adds.
func Init() {
	p := os.Getenv("VERIF_OP")
	if p == "" {
		op.Map.Mode = "asc"
		return
	}
	data, err := os.ReadFile(p)
	if err != nil {
		fmt.Fprintf(os.Stderr, "simrt: cannot read VERIF_OP: %v\n", err)
		os.Exit(ExitSimInfra)
	}
	if err := json.Unmarshal(data, &op); err != nil {
		fmt.Fprintf(os.Stderr, "simrt: bad VERIF_OP: %v\n", err)
		os.Exit(ExitSimInfra)
	}
	if op.Map.Mode == "" {
		op.Map.Mode = "asc"
	}
	if op.Ticks > 0 {
		budget = op.Ticks
	}
	if op.Sidecar != "" {
		f, err := os.OpenFile(op.Sidecar, os.O_CREATE|os.O_WRONLY|os.O_APPEND|os.O_TRUNC, 0o644)
		if err != nil {
			fmt.Fprintf(os.Stderr, "simrt: cannot open sidecar: %v\n", err)
			os.Exit(ExitSimInfra)
		}
		side = f
	}
	active = true
}

func logLine(v any) {
	if side == nil {
		return
	}
	b, _ := json.Marshal(v)
	b = append(b, '\n')
	side.Write(b)
}

// Finish is called when lox's main returns normally.
func Finish(code int) {
	logLine(map[string]any{"exit": code, "ticks": ticks, "calls": calls, "ties": tiesSeen})
}

// Exit replaces os.Exit in the instrumented cmd/lox.
func Exit(code int) {
	Finish(code)
	os.Exit(code)
}

// Tick is inserted at every function entry and loop head of lox (pass P3).
func Tick() {
	ticks++
	if ticks > budget {
		logLine(map[string]any{"budget": true, "ticks": ticks})
		fmt.Fprintf(os.Stderr, "simrt: tick budget exceeded (%d)\n", budget)
		os.Exit(ExitTickBudget)
	}
}

// ---------------------------------------------------------------------------
// S1: map iteration order.

func splitmix(x *uint64) uint64 {
	*x += 0x9e3779b97f4a7c15
	z := *x
	z = (z ^ (z >> 30)) * 0xbf58476d1ce4e5b9
	z = (z ^ (z >> 27)) * 0x94d049bb133111eb
	return z ^ (z >> 31)
}

func hashStr(s string) uint64 {
	h := uint64(1469598103934665603)
	for i := 0; i < len(s); i++ {
		h ^= uint64(s[i])
		h *= 1099511628211
	}
	return h
}

// canon renders a map key to a string that is a function of the key's value
// (never of an address): basic kinds print themselves, structs print their
// basic-typed fields, pointers and interfaces print the pointee shallowly.
func canon(v reflect.Value, depth int) string {
	switch v.Kind() {
	case reflect.String:
		return "s" + strconv.Quote(v.String())
	case reflect.Int, reflect.Int8, reflect.Int16, reflect.Int32, reflect.Int64:
		return fmt.Sprintf("i%020d", v.Int()+(1<<62))
	case reflect.Uint, reflect.Uint8, reflect.Uint16, reflect.Uint32, reflect.Uint64, reflect.Uintptr:
		return fmt.Sprintf("u%020d", v.Uint())
	case reflect.Bool:
		if v.Bool() {
			return "b1"
		}
		return "b0"
	case reflect.Float32, reflect.Float64:
		return fmt.Sprintf("f%v", v.Float())
	case reflect.Interface:
		if v.IsNil() {
			return "nil"
		}
		e := v.Elem()
		return e.Type().String() + ":" + canon(e, depth)
	case reflect.Ptr:
		if v.IsNil() {
			return "nil"
		}
		if depth <= 0 {
			return "*"
		}
		return "*" + canon(v.Elem(), depth-1)
	case reflect.Struct:
		var sb strings.Builder
		sb.WriteString("{")
		for i := 0; i < v.NumField(); i++ {
			f := v.Field(i)
			switch f.Kind() {
			case reflect.Ptr, reflect.Interface, reflect.Slice, reflect.Map, reflect.Func, reflect.Chan, reflect.Struct:
				if f.Kind() == reflect.Struct && depth > 0 {
					sb.WriteString(canon(f, depth-1))
					sb.WriteString(",")
				}
				continue
			}
			sb.WriteString(canon(f, depth))
			sb.WriteString(",")
		}
		sb.WriteString("}")
		return sb.String()
	case reflect.Array:
		var sb strings.Builder
		for i := 0; i < v.Len(); i++ {
			sb.WriteString(canon(v.Index(i), depth))
			sb.WriteString(",")
		}
		return sb.String()
	}
	return "?"
}

// MapKeys returns the keys of m in an order chosen by the simulator. Every
// result is a permutation the Go runtime could have produced, so any
// difference in lox's output between two modes is a difference between two
// possible real executions.
func MapKeys[K comparable, V any](m map[K]V, site string) []K {
	type kc struct {
		k K
		c string
	}
	ks := make([]kc, 0, len(m))
	for k := range m {
		ks = append(ks, kc{k, canon(reflect.ValueOf(&k).Elem(), 2)})
	}
	sort.SliceStable(ks, func(i, j int) bool { return ks[i].c < ks[j].c })
	ties := 0
	for i := 1; i < len(ks); i++ {
		if ks[i].c == ks[i-1].c {
			ties++
		}
	}
	mu.Lock()
	visit := siteSeen[site]
	siteSeen[site] = visit + 1
	tiesSeen += ties
	mu.Unlock()
	n := len(ks)
	switch op.Map.Mode {
	case "desc":
		for i, j := 0, n-1; i < j; i, j = i+1, j-1 {
			ks[i], ks[j] = ks[j], ks[i]
		}
	case "shuffle":
		s := op.Map.Seed ^ hashStr(site) ^ (uint64(visit) * 0x9e3779b97f4a7c15)
		for i := n - 1; i > 0; i-- {
			j := int(splitmix(&s) % uint64(i+1))
			ks[i], ks[j] = ks[j], ks[i]
		}
	case "rotate":
		if n > 1 {
			s := op.Map.Seed ^ hashStr(site) ^ (uint64(visit) * 0x9e3779b97f4a7c15)
			r := int(splitmix(&s) % uint64(n))
			rot := make([]kc, 0, n)
			rot = append(rot, ks[r:]...)
			rot = append(rot, ks[:r]...)
			ks = rot
		}
	}
	if active && visit == 0 {
		logLine(map[string]any{"p1": site, "len": n, "ties": ties})
	}
	out := make([]K, n)
	for i := range ks {
		out[i] = ks[i].k
	}
	return out
}

// MapSeq is what pass P1 wraps around the operand of every `range <map>`:
// `for k, v := range m` becomes `for k, v := range simrt.MapSeq(m, site)`.
// The operand is evaluated once, keys are snapshotted in the simulator's
// order when iteration starts, an entry deleted during iteration is not
// visited and entries added during iteration are not visited either (both
// allowed by the Go specification).
func MapSeq[M ~map[K]V, K comparable, V any](m M, site string) func(yield func(K, V) bool) {
	return func(yield func(K, V) bool) {
		for _, k := range MapKeys(m, site) {
			v, ok := m[k]
			if !ok {
				continue
			}
			if !yield(k, v) {
				return
			}
		}
	}
}
