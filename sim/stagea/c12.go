package stagea

import (
	"bytes"
	"encoding/json"
	"fmt"
	goparser "go/parser"
	gotoken "go/token"
	"os"
	"path/filepath"
	"regexp"
	"sort"
	"strings"
	"sync"
	"time"

	"verifsim/core"
	"verifsim/specgen"
)

// C12: the generator never crashes: output or diagnostic, nothing else.

// c12Run is one generation over one simulated project directory: stored
// bytes (possibly corrupted), an environment, and a fault schedule.
type c12Run struct {
	ID      string            `json:"id"`
	Files   map[string]string `json:"files"` // what is on disk before the generation (after stored-byte faults)
	Pre     map[string]string `json:"pre,omitempty"` // sources of an earlier, fault-free generation in the same directory (its *.gen.go stay)
	Env     string            `json:"env,omitempty"` // "", dir-missing, dir-is-file, lox-is-dir, gofile-is-dir
	Op      Op                `json:"op"`
	Faults  []string          `json:"stored_byte_faults,omitempty"`
	Kind    string            `json:"kind"` // baseline | stored-byte | io-fault | go-package | env
}

type c12Outcome struct {
	Class  string // ok | fail | violation class
	Sig    core.Signature
	Detail string
	Obs    *Observation
	Bare   bool
}

var rePanicMsg = regexp.MustCompile(`(?m)^panic: (.*)$`)
var reFatal = regexp.MustCompile(`(?m)^fatal error: (.*)$`)
var reFrame = regexp.MustCompile(`(?m)^(github\.com/dcaiafa/lox/[^\s(]+(?:\([^)]*\))?[^\s(]*)\(`)
var reQuoted = regexp.MustCompile(`"[^"]*"`)
var reDigits = regexp.MustCompile(`[0-9]+`)
var reHex = regexp.MustCompile(`0x[0-9a-f]+`)

// panicSignature extracts the panic value (normalised) and the innermost lox
// frame that is not a panic helper.
func panicSignature(stderr string) (msg, fn string) {
	if m := rePanicMsg.FindStringSubmatch(stderr); m != nil {
		msg = m[1]
	} else if m := reFatal.FindStringSubmatch(stderr); m != nil {
		msg = "fatal: " + m[1]
	}
	if i := strings.Index(msg, " [recovered]"); i >= 0 {
		msg = msg[:i]
	}
	msg = reQuoted.ReplaceAllString(msg, `"…"`)
	msg = reHex.ReplaceAllString(msg, "0xN")
	msg = reDigits.ReplaceAllString(msg, "N")
	if len(msg) > 120 {
		msg = msg[:120]
	}
	for _, m := range reFrame.FindAllStringSubmatch(stderr, -1) {
		f := strings.TrimPrefix(m[1], "github.com/dcaiafa/lox/")
		if strings.Contains(f, "internal/base/assert.") || strings.Contains(f, "zzverif/simrt") {
			continue
		}
		fn = f
		break
	}
	return msg, fn
}

func (x *Executor) judgeC12(run *c12Run, obs *Observation) c12Outcome {
	out := c12Outcome{Obs: obs}
	faultOnWrite := ""
	for _, c := range obs.Calls {
		if c.Fault != nil && c.Fn == "os.WriteFile" {
			faultOnWrite = c.Path
		}
	}
	switch obs.ExitClass {
	case "ok":
		var missing []string
		for _, g := range GenFiles {
			found := false
			for _, w := range obs.Written {
				if w == g {
					found = true
				}
			}
			content, present := obs.Disk[g]
			if run.Pre != nil {
				// over earlier output a generator may leave a file whose bytes
				// are already right alone; staleness is judged against a fresh
				// directory by the caller
				found = present
			}
			if !found || !present || len(content) == 0 || strings.Contains(obs.FileSha[g], "differs") {
				missing = append(missing, g)
				continue
			}
			// complete = a whole Go file (a torn or overwritten-in-place file
			// with a stale tail is not)
			if _, err := goparser.ParseFile(gotoken.NewFileSet(), g, content, goparser.AllErrors); err != nil {
				missing = append(missing, g+" (not a complete Go file: "+firstLine(err.Error())+")")
			}
		}
		if len(missing) > 0 {
			out.Class = "exit0-partial-output"
			out.Sig = core.Signature{"class": "exit0-partial-output", "missing": strings.Join(missing, ","), "after": faultKey(run)}
			out.Detail = fmt.Sprintf("lox exited 0 but did not (completely) write %v in this run; fault on write: %q", missing, faultOnWrite)
			return out
		}
		out.Class = "ok"
	case "fail":
		if strings.TrimSpace(obs.Stderr) == "" {
			out.Class = "silent-failure"
			out.Sig = core.Signature{"class": "silent-failure", "after": faultKey(run)}
			out.Detail = fmt.Sprintf("exit status %d with empty stderr", obs.Exit)
			return out
		}
		out.Class = "fail"
		lines := strings.Split(strings.TrimSpace(obs.Stderr), "\n")
		if len(lines) == 1 && strings.HasPrefix(lines[0], "Error: ") {
			out.Bare = true
		}
	case "panic":
		msg, fn := panicSignature(obs.Stderr)
		out.Class = "panic"
		out.Sig = core.Signature{"class": "panic", "fn": fn, "msg": msg}
		out.Detail = tail([]byte(obs.Stderr), 1800)
	case "hang":
		out.Class = "hang"
		out.Sig = core.Signature{"class": "hang"}
		out.Detail = "generation did not terminate within the tick budget / watchdog"
	default:
		out.Class = obs.ExitClass
	}
	return out
}

func faultKey(run *c12Run) string {
	if run.Op.Fault != nil {
		f := run.Op.Fault
		if f.Fn != "" {
			return f.Fn
		}
		return fmt.Sprintf("%s/%s", f.Kind, f.Errno)
	}
	return run.Kind
}

// ---------------------------------------------------------------------------
// Stored-byte faults.

var loxBytes = []byte("'@()[]\\|=*+?~-{}\n,.!0123456789 \tAaZz_/")

var loxWords = []string{"@left(0)", "@right(0)", "@left(99999999999999999999)", "@left(-1)", "@empty", "@error", "@list(", "@start", "@lexer", "@parser",
	"@mode", "@frag", "@macro", "@external", "@push_mode(", "@pop_mode", "@emit(", "@discard", "'\\x", "'\\u12'", "'\\U00110000'", "'\\UFFFFFFFF'", "[z-a]", "[]", "~[]", "''", "*?", "+?", "*!",
	"[a-\\U0010FFFF]", "~[\\x00-\\U0010FFFF]", "'\\xZZ'", "\\", "(", ")", "|", "=", ". - .", "[a] - [a]", "EOF", "ERROR", "A__B", "_x", "x__y"}

var reLitOrClass = regexp.MustCompile(`'(?:\\.|[^'\\\n])*'|\[(?:\\.|[^\]\\\n])*\]`)

var advLiterals = []string{`'\UFFFFFFFF'`, `'\U80000000'`, `'\U7FFFFFFF'`, `'\U00110000'`, `'\x00'`, `'\u0000'`, `'\uD800'`, `'\xFF\xFE'`, `'\''`, `'\\'`, `''`, `'\n\r\t'`,
	`'aaaaaaaaaaaaaaaaaaaaaaaaaaaaaaaaaaaaaaaaaaaaaaaaaaaaaaaaaaaaaaaaaaaaaaaaaaaaaaaa'`, `'\UFFFFFFFF\U80000000'`}

var advClasses = []string{`[\UFFFFFFFF]`, `[\U80000000-\UFFFFFFFF]`, `[\x00-\U0010FFFF]`, `[z-a]`, `[\uD800-\uDFFF]`, `[a-a]`, `[\--\-]`, `[\\-\\]`, `[\U00110000]`, `[a-zA-Z0-9_\x00-\x1F\u0080-\uFFFF]`}

var reTokenish = regexp.MustCompile(`[A-Za-z_][A-Za-z0-9_]*|[0-9]+|'(?:\\.|[^'\\\n])*'|\[(?:\\.|[^\]\\\n])*\]|@[a-z_]+|\S`)

func mutateBytes(r *core.Rand, data []byte, other []byte) ([]byte, string) {
	if len(data) == 0 {
		return []byte{loxBytes[r.Intn(len(loxBytes))]}, "insert-into-empty"
	}
	d := append([]byte{}, data...)
	pos := r.Intn(len(d))
	switch r.Intn(14) {
	case 0, 1:
		bit := r.Intn(8)
		d[pos] ^= 1 << uint(bit)
		return d, fmt.Sprintf("bitflip@%d.%d", pos, bit)
	case 2:
		d[pos] = d[r.Intn(len(d))]
		return d, fmt.Sprintf("copybyte@%d", pos)
	case 3, 4:
		b := loxBytes[r.Intn(len(loxBytes))]
		d[pos] = b
		return d, fmt.Sprintf("setbyte@%d=%q", pos, b)
	case 5:
		return d[:pos], fmt.Sprintf("truncate@%d", pos)
	case 6:
		n := 1 + r.Intn(16)
		if pos+n > len(d) {
			n = len(d) - pos
		}
		return append(d[:pos], d[pos+n:]...), fmt.Sprintf("dropblock@%d+%d", pos, n)
	case 7:
		n := 1 + r.Intn(24)
		if pos+n > len(d) {
			n = len(d) - pos
		}
		blk := append([]byte{}, d[pos:pos+n]...)
		out := append(append(append([]byte{}, d[:pos+n]...), blk...), d[pos+n:]...)
		return out, fmt.Sprintf("dupblock@%d+%d", pos, n)
	case 8:
		n := 1 + r.Intn(8)
		if pos+n > len(d) {
			n = len(d) - pos
		}
		for i := 0; i < n; i++ {
			d[pos+i] = 0
		}
		return d, fmt.Sprintf("zerofill@%d+%d", pos, n)
	case 9:
		if len(other) > 0 {
			cut := r.Intn(len(other))
			return append(d[:pos], other[cut:]...), fmt.Sprintf("splice@%d<-other@%d", pos, cut)
		}
		b := loxBytes[r.Intn(len(loxBytes))]
		out := append(append(append([]byte{}, d[:pos]...), b), d[pos:]...)
		return out, fmt.Sprintf("insbyte@%d=%q", pos, b)
	case 10:
		b := loxBytes[r.Intn(len(loxBytes))]
		out := append(append(append([]byte{}, d[:pos]...), b), d[pos:]...)
		return out, fmt.Sprintf("insbyte@%d=%q", pos, b)
	default:
		// token-level: nearly valid inputs
		locs := reTokenish.FindAllIndex(d, -1)
		if len(locs) < 2 {
			d[pos] ^= 0x20
			return d, fmt.Sprintf("caseflip@%d", pos)
		}
		a := locs[r.Intn(len(locs))]
		switch r.Intn(10) {
		case 8: // replace a literal or a class by an adversarial one
			lits := reLitOrClass.FindAllIndex(d, -1)
			if len(lits) > 0 {
				n := lits[r.Intn(len(lits))]
				w := advLiterals[r.Intn(len(advLiterals))]
				if d[n[0]] == '[' {
					w = advClasses[r.Intn(len(advClasses))]
				}
				out := append(append(append([]byte{}, d[:n[0]]...), w...), d[n[1]:]...)
				return out, fmt.Sprintf("advliteral@%d=%s", n[0], w)
			}
			fallthrough
		case 9: // make a token very long
			n := 20 + r.Intn(200)
			mid := d[a[0]:a[1]]
			if len(mid) >= 2 && (mid[0] == '\'' || mid[0] == '[') {
				inner := bytes.Repeat([]byte{"aZ0_ "[r.Intn(5)]}, n)
				out := append(append(append([]byte{}, d[:a[0]+1]...), inner...), d[a[0]+1:]...)
				return out, fmt.Sprintf("longtoken@%d+%d", a[0], n)
			}
			out := append(append(append([]byte{}, d[:a[1]]...), bytes.Repeat(mid[len(mid)-1:], n)...), d[a[1]:]...)
			return out, fmt.Sprintf("longtoken@%d+%d", a[0], n)
		case 6: // tweak a number: 0, negative-looking, huge
			nums := reDigits.FindAllIndex(d, -1)
			if len(nums) > 0 {
				n := nums[r.Intn(len(nums))]
				w := []string{"0", "00", "99999999999999999999", "4294967296", "9223372036854775808", "-1"}[r.Intn(6)]
				out := append(append(append([]byte{}, d[:n[0]]...), w...), d[n[1]:]...)
				return out, fmt.Sprintf("number@%d=%s", n[0], w)
			}
			fallthrough
		case 7: // append a qualifier or action to the end of a line
			ls := bytes.Split(d, []byte("\n"))
			k := r.Intn(len(ls))
			w := []string{" @left(0)", " @right(0)", " @left(1)", " @left(99999999999999999999)", " @right(2)", " @discard", " @pop_mode", " @push_mode(Nope)", " @emit(NOPE)", " @push_mode()", " \\", " |", " @error"}[r.Intn(13)]
			ls[k] = append(append([]byte{}, ls[k]...), w...)
			return bytes.Join(ls, []byte("\n")), fmt.Sprintf("lineappend@%d=%q", k, w)
		case 0: // replace a token by another token of the file
			b := locs[r.Intn(len(locs))]
			out := append(append(append([]byte{}, d[:a[0]]...), d[b[0]:b[1]]...), d[a[1]:]...)
			return out, fmt.Sprintf("tokcopy@%d<-%q", a[0], d[b[0]:b[1]])
		case 1: // delete a token
			return append(append([]byte{}, d[:a[0]]...), d[a[1]:]...), fmt.Sprintf("tokdel@%d(%q)", a[0], d[a[0]:a[1]])
		case 2, 3: // replace by an adversarial word
			w := loxWords[r.Intn(len(loxWords))]
			out := append(append(append([]byte{}, d[:a[0]]...), w...), d[a[1]:]...)
			return out, fmt.Sprintf("tokword@%d=%q", a[0], w)
		case 4: // insert an adversarial word
			w := loxWords[r.Intn(len(loxWords))]
			out := append(append(append(append([]byte{}, d[:a[0]]...), w...), ' '), d[a[0]:]...)
			return out, fmt.Sprintf("tokins@%d=%q", a[0], w)
		default: // delete a line
			ls := bytes.Split(d, []byte("\n"))
			k := r.Intn(len(ls))
			out := bytes.Join(append(append([][]byte{}, ls[:k]...), ls[k+1:]...), []byte("\n"))
			return out, fmt.Sprintf("linedel@%d", k)
		}
	}
}

// ---------------------------------------------------------------------------

type c12State struct {
	x        *Executor
	rep      *core.Reporter
	mu       sync.Mutex
	evals    int
	classes  map[string]int
	kinds    map[string]int
	fired    map[string]int
	bare     int
	distinct map[string]bool
	samples  []any
	p1       map[string]bool
	maxTicks int64
	reached  map[string]int // furthest seam call reached, per run
}

func (st *c12State) execOne(run *c12Run) (c12Outcome, error) {
	base := filepath.Join(st.x.T.WorldRoot(), "c12-"+run.ID)
	dir := filepath.Join(base, "proj")
	os.RemoveAll(base)
	defer os.RemoveAll(base)
	if run.Env == "outside-module" {
		// a project directory that is not inside any Go module
		base = filepath.Join(st.x.T.Base, "outside", "c12-"+run.ID)
		dir = filepath.Join(base, "proj")
		os.RemoveAll(base)
		defer os.RemoveAll(base)
	}
	switch run.Env {
	case "dir-missing":
		os.MkdirAll(base, 0o755)
	case "dir-is-file":
		os.MkdirAll(base, 0o755)
		os.WriteFile(dir, []byte("not a directory\n"), 0o644)
	default:
		if run.Pre != nil {
			// an earlier successful generation in the same directory: the run
			// under judgement regenerates over its output
			if err := Materialise(dir, run.Pre, true); err != nil {
				return c12Outcome{}, Infra("%v", err)
			}
			if _, err := st.x.RunGen(dir, Op{Kind: "Gen", Binary: "plain", Cwd: "dot"}, "c12pre"); err != nil {
				return c12Outcome{}, err
			}
			known := map[string]bool{}
			for n := range run.Pre {
				known[n] = true
			}
			if err := SetSources(dir, &Variant{Name: "main", Files: run.Files}, known); err != nil {
				return c12Outcome{}, Infra("%v", err)
			}
		} else if err := Materialise(dir, run.Files, true); err != nil {
			return c12Outcome{}, Infra("%v", err)
		}
		switch run.Env {
		case "symlinked-dir":
			// the project directory is reached through a symbolic link
			real := filepath.Join(base, "real_dir")
			os.Rename(dir, real)
			os.Symlink(real, dir)
		case "lox-is-dir":
			os.MkdirAll(filepath.Join(dir, "zz_dir.lox"), 0o755)
		case "gofile-is-dir":
			os.MkdirAll(filepath.Join(dir, "zzzz.go"), 0o755)
		case "genfile-is-dir":
			os.MkdirAll(filepath.Join(dir, "lexer.gen.go"), 0o755)
		}
	}
	op := run.Op
	if run.Env == "dir-missing" || run.Env == "dir-is-file" {
		// the process cannot start inside (or through a link to) a directory
		// that does not exist: name it from its parent
		if op.Cwd != "abs" && op.Cwd != "absslash" && op.Cwd != "relslash" {
			op.Cwd = "rel"
		}
	}
	obs, err := st.x.RunGen(dir, op, "c12")
	if err != nil {
		return c12Outcome{}, err
	}
	out := st.x.judgeC12(run, obs)
	if run.Pre != nil && out.Class == "ok" {
		// The directory held the output of an earlier generation. Exit 0 is only
		// right if a fresh directory with the same sources also succeeds and
		// the generated files now on disk are that output: anything else is
		// "exit 0 with missing or partial (stale) output".
		fresh := filepath.Join(base, "fresh")
		if err := Materialise(fresh, run.Files, true); err != nil {
			return c12Outcome{}, Infra("%v", err)
		}
		ref, err := st.x.RunGen(fresh, Op{Kind: "Gen", Binary: "plain", Cwd: "dot"}, "c12ref")
		if err != nil {
			return c12Outcome{}, err
		}
		if ref.ExitClass != "ok" {
			out.Class = "exit0-where-fresh-directory-fails"
			out.Sig = core.Signature{"class": "exit0-where-fresh-directory-fails", "after": faultKey(run)}
			out.Detail = fmt.Sprintf("lox exited 0 over the output of an earlier generation, but the same sources in a fresh directory fail:\n%s", tail([]byte(ref.Stderr), 600))
			return out, nil
		}
		for _, g := range GenFiles {
			if obs.Disk[g] != ref.Disk[g] {
				out.Class = "exit0-stale-output"
				out.Sig = core.Signature{"class": "exit0-stale-output", "file": g, "after": faultKey(run)}
				out.Detail = fmt.Sprintf("lox exited 0 but %s is not what the same sources generate in a fresh directory\n%s", g, firstDiff([]byte(ref.Disk[g]), []byte(obs.Disk[g])))
				return out, nil
			}
		}
	}
	return out, nil
}

func (st *c12State) record(run *c12Run, out c12Outcome) {
	st.mu.Lock()
	defer st.mu.Unlock()
	st.evals++
	st.classes[out.Class]++
	st.kinds[run.Kind]++
	if out.Bare {
		st.bare++
	}
	if out.Obs != nil {
		for _, s := range out.Obs.P1 {
			st.p1[s] = true
		}
		if out.Obs.Ticks > st.maxTicks {
			st.maxTicks = out.Obs.Ticks
		}
		for _, c := range out.Obs.Calls {
			if c.Fault != nil {
				st.fired[c.Fn]++
			}
		}
		far := "before-any-call"
		if n := len(out.Obs.Calls); n > 0 {
			far = out.Obs.Calls[n-1].Fn
			if out.Obs.Calls[n-1].Fn == "os.WriteFile" {
				far += "(" + out.Obs.Calls[n-1].Path + ")"
			}
		}
		st.reached[far]++
	}
	if run.Kind != "baseline" {
		h := core.Signature{"k": run.Kind, "f": strings.Join(run.Faults, ";"), "e": run.Env, "op": run.Op.String()}
		for n, c := range run.Files {
			h["file:"+n] = shaS([]byte(c))
		}
		st.distinct[h.String()] = true
	}
}

func CheckC12(tier string, seed uint64, rep *core.Reporter) (*core.Evidence, error) {
	start := time.Now()
	t, err := NewTree("C12", true)
	if err != nil {
		return nil, err
	}
	defer t.Close()
	x := &Executor{T: t, Budget: TickBudget}
	st := &c12State{x: x, rep: rep, classes: map[string]int{}, kinds: map[string]int{}, fired: map[string]int{},
		distinct: map[string]bool{}, p1: map[string]bool{}, reached: map[string]int{}}

	nWorlds, nByte, nIO := 12, 56, 9
	if tier == "thorough" {
		nWorlds, nByte, nIO = 120, 220, 24
	}
	if v := os.Getenv("VERIF_C12_WORLDS"); v != "" {
		fmt.Sscan(v, &nWorlds)
	}

	type result struct {
		run *c12Run
		out c12Outcome
	}
	var resMu sync.Mutex
	var results []result
	var firstErr error
	setErr := func(e error) {
		resMu.Lock()
		if firstErr == nil {
			firstErr = e
		}
		resMu.Unlock()
	}
	sem := make(chan struct{}, 8)
	var wg sync.WaitGroup
	rejected := 0

	seenID := map[string]int{}
	doRun := func(run *c12Run) {
		// the ID names the scratch directory of the run: two runs executing
		// concurrently must never share one (IDs carry the world index and
		// runs of one world are issued sequentially, so the suffix is a
		// function of the seed)
		resMu.Lock()
		seenID[run.ID]++
		if n := seenID[run.ID]; n > 1 {
			run.ID = fmt.Sprintf("%s~%d", run.ID, n)
		}
		resMu.Unlock()
		wg.Add(1)
		go func() {
			defer wg.Done()
			sem <- struct{}{}
			defer func() { <-sem }()
			out, err := st.execOne(run)
			if err != nil {
				setErr(err)
				return
			}
			st.record(run, out)
			resMu.Lock()
			results = append(results, result{run, out})
			resMu.Unlock()
		}()
	}

	var wwg sync.WaitGroup
	wsem := make(chan struct{}, 4)
	for wi := 0; wi < nWorlds; wi++ {
		wwg.Add(1)
		go func(wi int) {
			defer wwg.Done()
			wsem <- struct{}{}
			defer func() { <-wsem }()
			r := core.NewRand(core.Derive(seed, "c12-world", wi))
			// A valid world: spec accepted by lox + good package. The
			// fault-free configuration must be OK; it also numbers the seam calls.
			var spec *specgen.Spec
			var gv specgen.GoVariant
			var baseObs *Observation
			var files map[string]string
			for attempt := 0; ; attempt++ {
				if attempt > 40 {
					setErr(Infra("world %d: no accepted specification in 40 attempts", wi))
					return
				}
				opt := specgen.Options{RichParser: r.Intn(4) > 0, RichLexer: r.Intn(3) > 0}
				spec = specgen.Generate(r.Uint64(), opt)
				gv = specgen.GoVariant{FileName: []string{"parser.go", "ast.go"}[r.Intn(2)]}
				files = spec.ProjectFiles(gv)
				run := &c12Run{ID: fmt.Sprintf("%d-base%d", wi, attempt), Files: files, Kind: "baseline",
					Op: Op{Kind: "Gen", Binary: "sim", Map: randMap(r), Cwd: cwdModes[r.Intn(len(cwdModes))], Report: r.Intn(3) == 0}}
				out, err := st.execOne(run)
				if err != nil {
					setErr(err)
					return
				}
				if out.Class == "fail" {
					// rejected by lox (conflicts): not a valid world, but the
					// rejection itself was judged like any other run
					st.record(run, out)
					resMu.Lock()
					rejected++
					resMu.Unlock()
					continue
				}
				st.record(run, out)
				resMu.Lock()
				results = append(results, result{run, out})
				resMu.Unlock()
				if out.Class != "ok" {
					return // violation on a valid world: reported below
				}
				baseObs = out.Obs
				break
			}
			ncalls := len(baseObs.Calls)
			loxNames := []string{}
			goNames := []string{}
			for n := range files {
				if strings.HasSuffix(n, ".lox") {
					loxNames = append(loxNames, n)
				} else {
					goNames = append(goNames, n)
				}
			}
			sort.Strings(loxNames)
			sort.Strings(goNames)
			clone := func() map[string]string {
				m := map[string]string{}
				for k, v := range files {
					m[k] = v
				}
				return m
			}
			// stored-byte faults
			for bi := 0; bi < nByte; bi++ {
				fs := clone()
				target := loxNames[r.Intn(len(loxNames))]
				if r.Intn(8) == 0 {
					target = goNames[r.Intn(len(goNames))]
				}
				nm := 1
				if r.Intn(4) == 0 {
					nm = 2 + r.Intn(2)
				}
				var notes []string
				data := []byte(fs[target])
				for k := 0; k < nm; k++ {
					other := []byte(fs[goNames[0]])
					if r.Intn(2) == 0 {
						other = []byte(fs[loxNames[r.Intn(len(loxNames))]])
					}
					var note string
					data, note = mutateBytes(r, data, other)
					notes = append(notes, target+":"+note)
				}
				fs[target] = string(data)
				bin := "sim"
				if r.Intn(6) == 0 {
					bin = "plain"
				}
				doRun(&c12Run{ID: fmt.Sprintf("%d-b%d", wi, bi), Files: fs, Kind: "stored-byte", Faults: notes,
					Op: Op{Kind: "Gen", Binary: bin, Map: randMap(r), Cwd: cwdModes[r.Intn(len(cwdModes))], Report: r.Intn(4) == 0}})
			}
			// I/O faults inside the run
			for ii := 0; ii < nIO; ii++ {
				call := 1 + r.Intn(ncalls)
				flt := &Fault{Call: call, Kind: "errno", Errno: []string{"EIO", "ENOSPC", "EACCES", "ENOENT", "EROFS"}[r.Intn(5)], Short: r.Intn(2) == 0, Pct: r.Intn(101)}
				if ii < ncalls {
					flt.Call = ii + 1 // walk every call once, then random
				}
				doRun(&c12Run{ID: fmt.Sprintf("%d-i%d", wi, ii), Files: clone(), Kind: "io-fault",
					Op: Op{Kind: "FailGen", Binary: "sim", Map: randMap(r), Cwd: cwdModes[r.Intn(len(cwdModes))], Report: r.Intn(4) == 0, Fault: flt}})
			}
			doRun(&c12Run{ID: fmt.Sprintf("%d-iL", wi), Files: clone(), Kind: "io-fault",
				Op: Op{Kind: "FailGen", Binary: "sim", Map: randMap(r), Cwd: "dot", Fault: &Fault{Fn: "packages.Load", Kind: "error"}}})
			doRun(&c12Run{ID: fmt.Sprintf("%d-iE", wi), Files: clone(), Kind: "io-fault",
				Op: Op{Kind: "FailGen", Binary: "sim", Map: randMap(r), Cwd: "dot", Fault: &Fault{Fn: "packages.Load", Kind: "empty"}}})
			// Go package defects
			defects := []string{"no-go-file", "empty-go-file", "ill-typed", "syntax-error", "no-token", "no-parser-struct", "two-parser-structs",
				"generic-parser-struct", "arity-mismatch", "return-mismatch", "two-results", "orphan-method", "missing-method",
				"iface-return-first", "iface-return-last", "any-return-first", "any-param", "value-receiver", "ptr-embedded-lox", "extra-methods",
				"embed-missing-file", "bad-build-constraint", "junk-last-go-file", "empty-last-go-file", "aliases", "aliases"}
			nd := 6
			if tier == "thorough" {
				nd = 12
			}
			for _, di := range permN(r, len(defects))[:nd] {
				g2 := gv
				g2.Defect = defects[di]
				bin := "sim"
				if r.Intn(4) == 0 {
					bin = "plain"
				}
				doRun(&c12Run{ID: fmt.Sprintf("%d-g%s", wi, defects[di]), Files: spec.ProjectFiles(g2), Kind: "go-package", Faults: []string{defects[di]},
					Op: Op{Kind: "Gen", Binary: bin, Map: randMap(r), Cwd: cwdModes[r.Intn(len(cwdModes))]}})
			}
			// regeneration over the output of an earlier run: the grammar shrank
			// (or was replaced by a smaller one), so every generated file gets shorter
			for k := 0; k < 2; k++ {
				small := specgen.Shrink(spec, r.Uint64())
				if k == 1 {
					small = specgen.Generate(r.Uint64(), specgen.Options{})
					small.Pkg = spec.Pkg
				}
				doRun(&c12Run{ID: fmt.Sprintf("%d-r%d", wi, k), Files: small.ProjectFiles(gv), Pre: clone(), Kind: "regenerate-smaller",
					Op: Op{Kind: "Gen", Binary: []string{"sim", "plain"}[r.Intn(2)], Map: randMap(r), Cwd: cwdModes[r.Intn(len(cwdModes))]}})
			}
			// the same text claimed by token rules of two different files
			{
				cs := cloneSpec(spec)
				cs.TwoFiles, cs.SplitLex = true, true
				def := cs.Modes[0]
				lit := []string{"q", "%%", "a"}[r.Intn(3)]
				dupA := &specgen.LexRule{Kind: specgen.RTok, Name: "DUPA", Expr: &specgen.LexExpr{Op: specgen.LLit, Lit: lit}}
				dupB := &specgen.LexRule{Kind: specgen.RTok, Name: "DUPB", Expr: &specgen.LexExpr{Op: specgen.LLit, Lit: lit}}
				def.Rules = append(append([]*specgen.LexRule{dupA}, def.Rules...), dupB)
				doRun(&c12Run{ID: fmt.Sprintf("%d-x", wi), Files: cs.ProjectFiles(gv), Kind: "cross-file-lexer-conflict",
					Op: Op{Kind: "Gen", Binary: "sim", Map: randMap(r), Cwd: cwdModes[r.Intn(len(cwdModes))]}})
			}
			// regeneration after an edit of the Go sources only (the grammar files
			// keep their timestamps): the package changed in a way that matters
			for k, defect := range []string{"", "no-token"} {
				g2 := gv
				g2.Defect = defect
				s2 := cloneSpec(spec)
				for _, rr := range s2.Rules {
					rr.Ret = (rr.Ret + 1) % 4
				}
				doRun(&c12Run{ID: fmt.Sprintf("%d-go%d", wi, k), Files: s2.ProjectFiles(g2), Pre: clone(), Kind: "regenerate-go-only-edit",
					Op: Op{Kind: "Gen", Binary: []string{"sim", "plain"}[r.Intn(2)], Map: randMap(r), Cwd: cwdModes[r.Intn(len(cwdModes))]}})
			}
			// a specification without parser rules, fresh and over the output of the full one
			{
				ls := cloneSpec(spec)
				ls.Rules = nil
				lg := gv
				lg.Defect = "no-methods"
				doRun(&c12Run{ID: fmt.Sprintf("%d-lx0", wi), Files: ls.ProjectFiles(lg), Kind: "lexer-only-spec",
					Op: Op{Kind: "Gen", Binary: "sim", Map: randMap(r), Cwd: cwdModes[r.Intn(len(cwdModes))]}})
				doRun(&c12Run{ID: fmt.Sprintf("%d-lx1", wi), Files: ls.ProjectFiles(lg), Pre: clone(), Kind: "lexer-only-spec",
					Op: Op{Kind: "Gen", Binary: []string{"sim", "plain"}[r.Intn(2)], Map: randMap(r), Cwd: cwdModes[r.Intn(len(cwdModes))]}})
			}
			// grammar files with unusual names: not valid UTF-8, a line feed, blanks, a leading dash
			for k, weird := range []string{"caf\xe9.lox", "two\nlines.lox", "with blank.lox", "-dash.lox", "\u00fcml\u4e16.lox"} {
				if k%2 != wi%2 {
					continue
				}
				fs := map[string]string{}
				renamed := false
				for _, n := range sortedKeys(files) {
					if strings.HasSuffix(n, ".lox") && !renamed {
						fs[weird] = files[n]
						renamed = true
					} else {
						fs[n] = files[n]
					}
				}
				doRun(&c12Run{ID: fmt.Sprintf("%d-fn%d", wi, k), Files: fs, Kind: "unusual-file-name", Faults: []string{fmt.Sprintf("%q", weird)},
					Op: Op{Kind: "Gen", Binary: []string{"sim", "plain"}[r.Intn(2)], Map: randMap(r), Cwd: cwdModes[r.Intn(len(cwdModes))]}})
			}
			// declarations made twice: a mode block, a token, a parser rule, a macro
			for k := 0; k < 2; k++ {
				cs := cloneSpec(spec)
				var what string
				switch r.Intn(5) {
				case 0:
					m := &specgen.LexMode{Name: "Dup", Rules: []*specgen.LexRule{{Kind: specgen.RTok, Name: "DUPTOK", Expr: &specgen.LexExpr{Op: specgen.LLit, Lit: "%"}, Actions: []specgen.LexAction{{Kind: specgen.APop}}}}}
					m2 := &specgen.LexMode{Name: "Dup", Rules: []*specgen.LexRule{{Kind: specgen.RTok, Name: "DUPTOK2", Expr: &specgen.LexExpr{Op: specgen.LLit, Lit: "^"}}}}
					cs.Modes = append(cs.Modes, m, m2)
					what = "mode-twice"
				case 1:
					if len(cs.Modes) > 1 {
						cs.Modes = append(cs.Modes, cs.Modes[len(cs.Modes)-1])
					} else {
						cs.Modes = append(cs.Modes, &specgen.LexMode{Name: cs.TokenNames()[0]})
					}
					what = "mode-block-repeated-or-named-like-a-token"
				case 2:
					first := cs.Modes[0].Rules[0]
					cs.Modes[0].Rules = append(cs.Modes[0].Rules, first)
					what = "lexer-rule-twice"
				case 3:
					cs.Rules = append(cs.Rules, cs.Rules[len(cs.Rules)-1])
					what = "parser-rule-twice"
				default:
					cs.Rules = append(cs.Rules, &specgen.Rule{Name: cs.TokenNames()[0], Prods: []*specgen.Prod{{}}}, &specgen.Rule{Name: "EOF", Prods: []*specgen.Prod{{}}})
					what = "parser-rule-named-like-a-token"
				}
				doRun(&c12Run{ID: fmt.Sprintf("%d-d%d", wi, k), Files: cs.ProjectFiles(gv), Kind: "duplicate-declarations", Faults: []string{what},
					Op: Op{Kind: "Gen", Binary: "sim", Map: randMap(r), Cwd: cwdModes[r.Intn(len(cwdModes))]}})
			}
			// grammars that are not LALR(1): must be diagnosed, not crash
			for k := 0; k < 3; k++ {
				cs := specgen.GenerateConflicting(r.Uint64())
				doRun(&c12Run{ID: fmt.Sprintf("%d-c%d", wi, k), Files: cs.ProjectFiles(gv), Kind: "conflicting-grammar",
					Op: Op{Kind: "Gen", Binary: "sim", Map: randMap(r), Cwd: cwdModes[r.Intn(len(cwdModes))], Report: r.Intn(2) == 0}})
			}
			// environment
			envs := []string{"dir-missing", "dir-is-file", "lox-is-dir", "gofile-is-dir", "genfile-is-dir", "outside-module", "outside-module", "symlinked-dir", "symlinked-dir"}
			for k, ei := range permN(r, len(envs))[:2] {
				// the index keeps the directory of the run unique even when the
				// same environment is drawn twice
				doRun(&c12Run{ID: fmt.Sprintf("%d-e%d%s", wi, k, envs[ei]), Files: clone(), Kind: "env", Env: envs[ei],
					Op: Op{Kind: "Gen", Binary: []string{"sim", "plain"}[r.Intn(2)], Map: randMap(r), Cwd: cwdModes[r.Intn(len(cwdModes))]}})
			}
		}(wi)
	}
	wwg.Wait()
	wg.Wait()
	if firstErr != nil {
		return nil, firstErr
	}

	sort.Slice(results, func(i, j int) bool { return results[i].run.ID < results[j].run.ID })
	reported := map[string]bool{}
	for _, res := range results {
		if res.out.Sig == nil {
			continue
		}
		key := res.out.Sig.String()
		if reported[key] {
			continue
		}
		reported[key] = true
		run := res.run
		if run.Kind == "stored-byte" || run.Kind == "baseline" {
			run = st.minimise(run, res.out.Sig)
		}
		rep.Report(res.out.Sig, res.out.Detail, run)
	}
	for i, res := range results {
		if i%(1+len(results)/10) == 0 {
			st.samples = append(st.samples, map[string]any{"run": res.run.ID, "kind": res.run.Kind, "stored_byte_faults": res.run.Faults, "env": res.run.Env,
				"op": res.run.Op.String(), "outcome": res.out.Class, "exit": res.out.Obs.Exit, "stderr_first_line": firstLine(res.out.Obs.Stderr)})
		}
	}
	sites := make([]string, 0, len(st.p1))
	for s := range st.p1 {
		sites = append(sites, s)
	}
	sort.Strings(sites)
	wall := time.Since(start).Seconds()
	ev := &core.Evidence{
		PropertyID: "C12", Tier: tier, Seed: int64(seed), Level: "fault_enumeration",
		Coverage: map[string]any{
			"evaluations":         st.evals,
			"distinct_nontrivial": len(st.distinct),
			"rule": "one evaluation = one generation process over one simulated project directory, judged by the trichotomy OK (exit 0 and all three files written completely in this run) / FAIL (non-zero exit with a diagnostic) / violation (panic, hang, exit 0 with partial output, silent failure). " +
				"distinct_nontrivial = distinct (stored bytes, environment, fault schedule, map mode, cwd) among runs with at least one fault (stored-byte, I/O, package defect or environment); seeded, not exhaustive",
			"samples":                   st.samples,
			"exhaustive":                false,
			"worlds":                    nWorlds,
			"specs_rejected_by_lox":     rejected,
			"runs_by_kind":              st.kinds,
			"outcomes":                  st.classes,
			"bare_failures":             st.bare,
			"io_faults_fired_by_call":   st.fired,
			"furthest_seam_call":        st.reached,
			"max_ticks_seen":            st.maxTicks,
			"tick_budget":               TickBudget,
			"processes_started":         x.Gens,
			"full_generations":          x.Full,
			"p1_sites_visited":          sites,
			"unwrapped_os_calls":        t.Instr.Unwrapped,
			"runs_per_hour":             int(float64(st.evals) / wall * 3600),
			"simulated_time":            "none: lox reads no clock; logical steps (seam calls, ticks) only",
			"components_real":           []string{"all lox packages (instrumented copy and plain binary)", "cmd/lox main()", "jet", "go/format", "go/types", "x/tools/go/packages", "go list subprocess", "tmpfs file system"},
			"components_simulated":      []string{"stored bytes of .lox/.go files (bit flips, truncation, block drop/dup/zero, splice, token-level edits)", "errno and short writes at seam calls", "go list failure", "environment (directory missing, file in place of directory)", "map iteration order", "cwd spelling"},
			"components_stubbed":        []string{},
			"known_findings_hit":        rep.KnownHits,
		},
		Assumptions: []string{
			"an exit status of 2 with a goroutine dump on stderr is a Go panic",
			"injected faults are restricted to what the real API can return",
			"the tick budget is far above any terminating generation of the explored size (max ticks seen is reported)",
		},
		WallS: wall,
	}
	return ev, nil
}

func firstLine(s string) string {
	s = strings.TrimSpace(s)
	if i := strings.Index(s, "\n"); i >= 0 {
		s = s[:i]
	}
	if len(s) > 160 {
		s = s[:160]
	}
	return s
}

func permN(r *core.Rand, n int) []int {
	p := make([]int, n)
	for i := range p {
		p[i] = i
	}
	for i := n - 1; i > 0; i-- {
		j := r.Intn(i + 1)
		p[i], p[j] = p[j], p[i]
	}
	return p
}

// minimise shrinks the .lox text line by line while the same signature persists.
func (st *c12State) minimise(run *c12Run, sig core.Signature) *c12Run {
	cur := run
	budget := 120
	same := func(c *c12Run) bool {
		if budget <= 0 {
			return false
		}
		budget--
		out, err := st.execOne(c)
		return err == nil && out.Sig != nil && out.Sig.String() == sig.String()
	}
	names := []string{}
	for n := range cur.Files {
		if strings.HasSuffix(n, ".lox") {
			names = append(names, n)
		}
	}
	sort.Strings(names)
	for _, n := range names {
		lines := strings.Split(cur.Files[n], "\n")
		chunk := len(lines) / 2
		for chunk >= 1 {
			i := 0
			for i < len(lines) {
				end := i + chunk
				if end > len(lines) {
					end = len(lines)
				}
				cand := append(append([]string{}, lines[:i]...), lines[end:]...)
				c := *cur
				c.ID = cur.ID + "m"
				c.Files = map[string]string{}
				for k, v := range cur.Files {
					c.Files[k] = v
				}
				c.Files[n] = strings.Join(cand, "\n")
				if same(&c) {
					lines = cand
					cur = &c
				} else {
					i = end
				}
			}
			chunk /= 2
		}
	}
	out := *cur
	out.ID = run.ID + "-min"
	return &out
}

// ReplayC12 re-executes a recorded run against the current tree.
func ReplayC12(path string, rep *core.Reporter) (int, error) {
	data, err := os.ReadFile(path)
	if err != nil {
		return 2, Infra("%v", err)
	}
	var doc struct {
		Signature core.Signature `json:"signature"`
		Replay    *c12Run        `json:"replay"`
	}
	if err := json.Unmarshal(data, &doc); err != nil || doc.Replay == nil {
		return 2, Infra("bad replay file: %v", err)
	}
	t, err := NewTree("C12r", true)
	if err != nil {
		return 2, err
	}
	defer t.Close()
	st := &c12State{x: &Executor{T: t, Budget: TickBudget}, rep: rep, classes: map[string]int{}, kinds: map[string]int{}, fired: map[string]int{},
		distinct: map[string]bool{}, p1: map[string]bool{}, reached: map[string]int{}}
	out, err := st.execOne(doc.Replay)
	if err != nil {
		return 2, err
	}
	if out.Sig == nil {
		fmt.Printf("replay: no violation reproduced (outcome %s; recorded %s)\n", out.Class, doc.Signature.String())
		return 0, nil
	}
	fmt.Printf("replay: reproduced %s\n", out.Sig.String())
	if out.Sig.String() != doc.Signature.String() {
		fmt.Printf("replay: signature differs from the recorded one (%s)\n", doc.Signature.String())
	}
	rep.ReplayPath = path
	rep.Report(out.Sig, out.Detail, doc.Replay)
	return 1, nil
}
