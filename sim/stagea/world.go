package stagea

import (
	"os"
	"path/filepath"
	"sort"
)

// WorldRoot is where project directories live: inside the plain copy of the
// lox module so that `go list` resolves simplelexer from the module cache.
func (t *Tree) WorldRoot() string { return filepath.Join(t.Plain, "internal", "zzverif", "w") }

// Materialise writes files into dir (created; existing non-listed files are
// left alone unless clean is set).
func Materialise(dir string, files map[string]string, clean bool) error {
	if clean {
		os.RemoveAll(dir)
	}
	if err := os.MkdirAll(dir, 0o755); err != nil {
		return err
	}
	for _, n := range CreationOrder(files, dir) {
		if err := os.WriteFile(filepath.Join(dir, n), []byte(files[n]), 0o644); err != nil {
			return err
		}
	}
	return nil
}

// CreationOrder decides in which order the files of a project directory are
// created. Directory listing order is a source of nondeterminism of its own
// (tmpfs lists by creation time, ext4 by name hash): the simulator owns it by
// deriving the creation order from the directory path, so that a history
// directory and the pristine model directory of the same sources list their
// entries differently, reproducibly.
func CreationOrder(files map[string]string, dir string) []string {
	names := make([]string, 0, len(files))
	for n := range files {
		names = append(names, n)
	}
	sort.Strings(names)
	h := uint64(14695981039346656037)
	for i := 0; i < len(dir); i++ {
		h = (h ^ uint64(dir[i])) * 1099511628211
	}
	switch h % 3 {
	case 0: // ascending
	case 1: // descending
		for i, j := 0, len(names)-1; i < j; i, j = i+1, j-1 {
			names[i], names[j] = names[j], names[i]
		}
	default: // seeded shuffle
		for i := len(names) - 1; i > 0; i-- {
			h = h*6364136223846793005 + 1442695040888963407
			j := int((h >> 33) % uint64(i+1))
			names[i], names[j] = names[j], names[i]
		}
	}
	return names
}
