package stagea

import (
	"os"
	"path/filepath"
)

// WorldRoot is where project directories live: inside the plain copy of the
// lox module so that `go list` resolves simplelexer from the module cache.
func (t *Tree) WorldRoot() string { return filepath.Join(t.Plain, "internal", "zzverif", "w") }

// Materialise writes files into dir (created; existing non-listed files are
// left alone unless clean is set).
func Materialise(dir string, files map[string]string, clean bool) error {
	if clean {
		os.RemoveAll(dir)
	}
	if err := os.MkdirAll(dir, 0o755); err != nil {
		return err
	}
	for n, c := range files {
		if err := os.WriteFile(filepath.Join(dir, n), []byte(c), 0o644); err != nil {
			return err
		}
	}
	return nil
}
