// Package hrt is the harness runtime linked with the simulated grammar
// packages (Stage B, run-sim). It provides the Token and node types the
// harness-written actions use, the per-task recorder, the tick/yield point
// that pass P4 inserts into generated code, and the seeded cooperative
// scheduler that decides which task runs next.
package hrt

import (
	"fmt"
	gotoken "go/token"
	"sort"
	"strings"
)

// Token is the token type of every simulated grammar package
// (`type Token = hrt.Token`).
type Token struct {
	Type int
	Seq  int // 1-based delivery sequence number stamped by the harness lexer; 0 = absent
	Str  []byte
	Pos  gotoken.Pos
	Err  error
}

// Discard is what `x*!` consults. The harness never discards, so that every
// consumed token stays in the tree.
func (t Token) Discard() bool { return false }

type Node struct {
	ID     int
	Rule   string
	Method string
	Kids   []any
}

func (n *Node) Discard() bool { return false }

type NodeA struct{ N *Node }

func (NodeA) Discard() bool { return false }

type NodeB struct{ N *Node }

func (NodeB) Discard() bool { return false }

// List wraps the value of a @list(elem, SEP) term: lox drops the separators
// from the list value, so the harness records which token type was consumed
// between the items.
type List struct {
	Sep   int
	Items any
}

// ErrLeaf is how an Error value (a type generated per package) is handed to
// the recorder.
type ErrLeaf struct {
	Tok      Token
	Expected []int
}

type Lexer interface {
	ReadToken() (Token, int)
}

type StateMachine interface {
	PushRune(r rune) int
	Token() int
	Reset()
}

type Global struct {
	Name string
	Ptr  any
}

// Pkg is what each simulated grammar package registers in its init().
type Pkg struct {
	Name          string
	Parse         func(h *Recorder, lex Lexer) bool
	NewSM         func() StateMachine
	Globals       func() []Global
	Tokens        map[string]int
	TokenToString func(int) string
	OnBounds      bool
}

var registry = map[string]*Pkg{}

func Register(p *Pkg) { registry[p.Name] = p }

func Lookup(name string) *Pkg { return registry[name] }

func Packages() []string {
	ns := make([]string, 0, len(registry))
	for n := range registry {
		ns = append(ns, n)
	}
	sort.Strings(ns)
	return ns
}

// ---------------------------------------------------------------------------
// Recorder: the observable history of one task.

type Recorder struct {
	StartRule string
	Log       []string
	Errors    []ErrLeaf // every Error value delivered to an action, in order
	Root      *Node     // result of the last reduction of the start rule
	nodes     int
	Bounds    int
	Actions   int
	// RecoversAtFirstError is how often the parser had entered its recovery
	// routine when the first Error value was delivered (-1 = unknown).
	RecoversAtFirstError int
}

func NewRecorder(startRule string) *Recorder { return &Recorder{StartRule: startRule} }

func fmtArg(sb *strings.Builder, a any) {
	switch v := a.(type) {
	case Token:
		fmt.Fprintf(sb, "t%d:%d", v.Seq, v.Type)
	case ErrLeaf:
		fmt.Fprintf(sb, "E%d:%d%v", v.Tok.Seq, v.Tok.Type, v.Expected)
	case *Node:
		if v == nil {
			sb.WriteString("nil")
		} else {
			fmt.Fprintf(sb, "n%d", v.ID)
		}
	case NodeA:
		fmtArg(sb, v.N)
	case NodeB:
		fmtArg(sb, v.N)
	case []Token:
		sb.WriteString("[")
		for i, x := range v {
			if i > 0 {
				sb.WriteString(" ")
			}
			fmtArg(sb, x)
		}
		sb.WriteString("]")
	case []ErrLeaf:
		sb.WriteString("[")
		for i, x := range v {
			if i > 0 {
				sb.WriteString(" ")
			}
			fmtArg(sb, x)
		}
		sb.WriteString("]")
	case []*Node:
		sb.WriteString("[")
		for i, x := range v {
			if i > 0 {
				sb.WriteString(" ")
			}
			fmtArg(sb, x)
		}
		sb.WriteString("]")
	case []NodeA:
		sb.WriteString("[")
		for i, x := range v {
			if i > 0 {
				sb.WriteString(" ")
			}
			fmtArg(sb, x.N)
		}
		sb.WriteString("]")
	case []NodeB:
		sb.WriteString("[")
		for i, x := range v {
			if i > 0 {
				sb.WriteString(" ")
			}
			fmtArg(sb, x.N)
		}
		sb.WriteString("]")
	case List:
		fmt.Fprintf(sb, "list/%d", v.Sep)
		fmtArg(sb, v.Items)
	default:
		fmt.Fprintf(sb, "?%T", a)
	}
}

// Act is called by every harness-written action method.
func (r *Recorder) Act(rule, method string, args ...any) *Node {
	Tick("seam:action")
	r.Actions++
	r.nodes++
	n := &Node{ID: r.nodes, Rule: rule, Method: method, Kids: args}
	var sb strings.Builder
	fmt.Fprintf(&sb, "act %s n%d(", method, n.ID)
	for i, a := range args {
		if i > 0 {
			sb.WriteString(", ")
		}
		fmtArg(&sb, a)
		switch v := a.(type) {
		case ErrLeaf:
			if len(r.Errors) == 0 {
				r.RecoversAtFirstError = Entered("parser:_recover")
			}
			r.Errors = append(r.Errors, v)
		case []ErrLeaf:
			if len(r.Errors) == 0 && len(v) > 0 {
				r.RecoversAtFirstError = Entered("parser:_recover")
			}
			r.Errors = append(r.Errors, v...)
		}
	}
	sb.WriteString(")")
	r.Log = append(r.Log, sb.String())
	// An action owns the values it is handed: user code may sort or filter
	// Error.Expected in place. The harness does the same (after recording), so
	// that generated code which hands out shared storage is exposed.
	for _, a := range args {
		switch v := a.(type) {
		case ErrLeaf:
			scribble(v.Expected)
		case []ErrLeaf:
			for _, e := range v {
				scribble(e.Expected)
			}
		}
	}
	if rule == r.StartRule {
		r.Root = n
	}
	return n
}

func scribble(xs []int) {
	for i := range xs {
		xs[i] = -1 - xs[i]
	}
	if cap(xs) > len(xs) {
		xs = xs[:cap(xs)]
		xs[len(xs)-1] = -99
	}
}

func (r *Recorder) OnBounds(res any, begin, end Token) {
	Tick("seam:onBounds")
	r.Bounds++
	var sb strings.Builder
	sb.WriteString("bounds ")
	fmtArg(&sb, res)
	fmt.Fprintf(&sb, " t%d..t%d", begin.Seq, end.Seq)
	r.Log = append(r.Log, sb.String())
}

func (r *Recorder) Note(s string) { r.Log = append(r.Log, s) }

// Leaf is one symbol of the yield of a tree.
type Leaf struct {
	IsErr bool
	IsSep bool // a @list separator: consumed, type known, position not recorded
	Tok   Token
}

// Yield reads the consumed symbols off the tree: tokens and @error leaves in
// order; absent optionals (zero Token, nil node) are skipped.
func Yield(root *Node) []Leaf {
	var out []Leaf
	var walk func(a any)
	walk = func(a any) {
		switch v := a.(type) {
		case Token:
			if v.Seq != 0 {
				out = append(out, Leaf{Tok: v})
			}
		case ErrLeaf:
			out = append(out, Leaf{IsErr: true, Tok: v.Tok})
		case *Node:
			if v != nil {
				for _, k := range v.Kids {
					walk(k)
				}
			}
		case NodeA:
			walk(v.N)
		case NodeB:
			walk(v.N)
		case []Token:
			for _, x := range v {
				walk(x)
			}
		case []ErrLeaf:
			for _, x := range v {
				walk(x)
			}
		case []*Node:
			for _, x := range v {
				walk(x)
			}
		case []NodeA:
			for _, x := range v {
				walk(x)
			}
		case []NodeB:
			for _, x := range v {
				walk(x)
			}
		case List:
			emit := func(i int, x any) {
				if i > 0 {
					out = append(out, Leaf{IsSep: true, Tok: Token{Type: v.Sep}})
				}
				walk(x)
			}
			switch it := v.Items.(type) {
			case []Token:
				for i, x := range it {
					emit(i, x)
				}
			case []*Node:
				for i, x := range it {
					emit(i, x)
				}
			case []NodeA:
				for i, x := range it {
					emit(i, x)
				}
			case []NodeB:
				for i, x := range it {
					emit(i, x)
				}
			}
		}
	}
	walk(root)
	return out
}
