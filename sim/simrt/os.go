package simrt

import (
	"crypto/sha256"
	"encoding/hex"
	"errors"
	"go/ast"
	goparser "go/parser"
	gotoken "go/token"
	"io/fs"
	"os"
	"path/filepath"
	"syscall"
	"time"

	"golang.org/x/tools/go/packages"
)

// S2/S3/S4: every wrapper numbers itself (program order over all wrapped
// functions), logs to the sidecar, and consults the fault list.

func sha(b []byte) string {
	h := sha256.Sum256(b)
	return hex.EncodeToString(h[:8])
}

func errnoOf(name string) error {
	switch name {
	case "ENOENT":
		return syscall.ENOENT
	case "EACCES":
		return syscall.EACCES
	case "ENOSPC":
		return syscall.ENOSPC
	case "EROFS":
		return syscall.EROFS
	default:
		return syscall.EIO
	}
}

// enter registers a seam call and returns the fault scheduled for it, if any.
func enter(fn string) (int, *Fault) {
	calls++
	n := calls
	if !active {
		return n, nil
	}
	for i := range op.Faults {
		f := &op.Faults[i]
		if (f.Call != 0 && f.Call == n) || (f.Call == 0 && f.Fn == fn) {
			if f.Kind == "signal" {
				// The process is told to terminate (Ctrl-C, a cancelled CI job)
				// while it is between two seam calls. Whatever handler the
				// program installed gets a moment to run; without one the
				// default disposition kills the process at once.
				logLine(map[string]any{"n": n, "fn": fn, "fault": f})
				syscall.Kill(os.Getpid(), syscall.SIGTERM)
				time.Sleep(1500 * time.Millisecond)
				crashNow()
			}
			return n, f
		}
	}
	return n, nil
}

func logCall(n int, fn, path string, ln int, sum string, f *Fault) {
	if !active {
		return
	}
	rec := map[string]any{"n": n, "fn": fn, "path": filepath.Base(path)}
	if ln >= 0 {
		rec["len"] = ln
		rec["sha"] = sum
	}
	if f != nil {
		rec["fault"] = f
	}
	logLine(rec)
}

func crashNow() {
	logLine(map[string]any{"crash": true, "calls": calls})
	os.Exit(ExitSimCrash)
}

func Glob(pattern string) ([]string, error) {
	n, f := enter("filepath.Glob")
	logCall(n, "filepath.Glob", pattern, -1, "", f)
	if f != nil {
		if f.Kind == "crash" {
			crashNow()
		}
		// filepath.Glob ignores I/O errors: an unreadable directory yields no
		// matches and a nil error. That is what the fault models.
		return nil, nil
	}
	return filepath.Glob(pattern)
}

func ReadFile(name string) ([]byte, error) {
	n, f := enter("os.ReadFile")
	logCall(n, "os.ReadFile", name, -1, "", f)
	if f != nil {
		if f.Kind == "crash" {
			crashNow()
		}
		return nil, &fs.PathError{Op: "open", Path: name, Err: errnoOf(f.Errno)}
	}
	return os.ReadFile(name)
}

func ReadDir(name string) ([]os.DirEntry, error) {
	n, f := enter("os.ReadDir")
	logCall(n, "os.ReadDir", name, -1, "", f)
	if f != nil {
		if f.Kind == "crash" {
			crashNow()
		}
		return nil, &fs.PathError{Op: "open", Path: name, Err: errnoOf(f.Errno)}
	}
	return os.ReadDir(name)
}

func ParseFile(fset *gotoken.FileSet, filename string, src any, mode goparser.Mode) (*ast.File, error) {
	n, f := enter("parser.ParseFile")
	logCall(n, "parser.ParseFile", filename, -1, "", f)
	if f != nil {
		if f.Kind == "crash" {
			crashNow()
		}
		return nil, &fs.PathError{Op: "open", Path: filename, Err: errnoOf(f.Errno)}
	}
	return goparser.ParseFile(fset, filename, src, mode)
}

func prefixLen(total, pct int) int {
	if pct < 0 {
		pct = 0
	}
	if pct > 100 {
		pct = 100
	}
	return total * pct / 100
}

func WriteFile(name string, data []byte, perm os.FileMode) error {
	n, f := enter("os.WriteFile")
	logCall(n, "os.WriteFile", name, len(data), sha(data), f)
	if f != nil {
		switch f.Kind {
		case "crash":
			switch f.Torn {
			case "trunc0":
				os.WriteFile(name, nil, perm)
			case "prefix":
				os.WriteFile(name, data[:prefixLen(len(data), f.Pct)], perm)
			case "full":
				os.WriteFile(name, data, perm)
			}
			crashNow()
		default:
			if f.Short {
				// open(O_TRUNC) succeeded, write(2) failed part-way.
				os.WriteFile(name, data[:prefixLen(len(data), f.Pct)], perm)
				return &fs.PathError{Op: "write", Path: name, Err: errnoOf(f.Errno)}
			}
			return &fs.PathError{Op: "open", Path: name, Err: errnoOf(f.Errno)}
		}
	}
	return os.WriteFile(name, data, perm)
}

// Abs and Getwd are seams (they are counted and logged) but are never faulted:
// the property quantifies over inputs and packages, not over a deleted
// working directory.
func Abs(path string) (string, error) {
	n, _ := enter("filepath.Abs")
	logCall(n, "filepath.Abs", path, -1, "", nil)
	return filepath.Abs(path)
}

func Getwd() (string, error) {
	return os.Getwd()
}

func Load(cfg *packages.Config, patterns ...string) ([]*packages.Package, error) {
	n, f := enter("packages.Load")
	logCall(n, "packages.Load", cfg.Dir, -1, "", f)
	if f != nil {
		if f.Kind == "crash" {
			crashNow()
		}
		if f.Kind == "empty" {
			// what go/packages returns when `go list` has nothing to load
			// (observed for a directory outside any module)
			return nil, nil
		}
		return nil, errors.New("go list: injected failure (simulated)")
	}
	return packages.Load(cfg, patterns...)
}

// ---------------------------------------------------------------------------
// Handle-based writes, renames and removals: a generator that writes through
// os.OpenFile/os.Create + (*os.File).Write + Close, or through a temporary file
// and os.Rename, meets the same faults as one that uses os.WriteFile.

func OpenFile(name string, flag int, perm os.FileMode) (*os.File, error) {
	n, f := enter("os.OpenFile")
	logCall(n, "os.OpenFile", name, -1, "", f)
	if f != nil {
		if f.Kind == "crash" {
			crashNow()
		}
		return nil, &fs.PathError{Op: "open", Path: name, Err: errnoOf(f.Errno)}
	}
	return os.OpenFile(name, flag, perm)
}

func Create(name string) (*os.File, error) {
	n, f := enter("os.Create")
	logCall(n, "os.Create", name, -1, "", f)
	if f != nil {
		if f.Kind == "crash" {
			crashNow()
		}
		return nil, &fs.PathError{Op: "open", Path: name, Err: errnoOf(f.Errno)}
	}
	return os.Create(name)
}

func CreateTemp(dir, pattern string) (*os.File, error) {
	n, f := enter("os.CreateTemp")
	logCall(n, "os.CreateTemp", filepath.Join(dir, pattern), -1, "", f)
	if f != nil {
		if f.Kind == "crash" {
			crashNow()
		}
		return nil, &fs.PathError{Op: "open", Path: filepath.Join(dir, pattern), Err: errnoOf(f.Errno)}
	}
	return os.CreateTemp(dir, pattern)
}

// FileWrite replaces f.Write(b) for f of type *os.File.
func FileWrite(file *os.File, b []byte) (int, error) {
	n, f := enter("File.Write")
	logCall(n, "File.Write", file.Name(), len(b), sha(b), f)
	if f != nil {
		k := prefixLen(len(b), f.Pct)
		switch f.Kind {
		case "crash":
			switch f.Torn {
			case "prefix":
				file.Write(b[:k])
			case "full":
				file.Write(b)
			}
			crashNow()
		default:
			if f.Short {
				w, _ := file.Write(b[:k])
				return w, &fs.PathError{Op: "write", Path: file.Name(), Err: errnoOf(f.Errno)}
			}
			return 0, &fs.PathError{Op: "write", Path: file.Name(), Err: errnoOf(f.Errno)}
		}
	}
	return file.Write(b)
}

func FileWriteString(file *os.File, s string) (int, error) { return FileWrite(file, []byte(s)) }

func FileSync(file *os.File) error {
	n, f := enter("File.Sync")
	logCall(n, "File.Sync", file.Name(), -1, "", f)
	if f != nil {
		if f.Kind == "crash" {
			crashNow()
		}
		return &fs.PathError{Op: "sync", Path: file.Name(), Err: errnoOf(f.Errno)}
	}
	return file.Sync()
}

func FileClose(file *os.File) error {
	n, f := enter("File.Close")
	logCall(n, "File.Close", file.Name(), -1, "", f)
	if f != nil {
		if f.Kind == "crash" {
			crashNow()
		}
		file.Close()
		return &fs.PathError{Op: "close", Path: file.Name(), Err: errnoOf(f.Errno)}
	}
	return file.Close()
}

func Rename(oldpath, newpath string) error {
	n, f := enter("os.Rename")
	logCall(n, "os.Rename", newpath, -1, "", f)
	if f != nil {
		if f.Kind == "crash" {
			if f.Torn == "full" {
				os.Rename(oldpath, newpath)
			}
			crashNow()
		}
		return &os.LinkError{Op: "rename", Old: oldpath, New: newpath, Err: errnoOf(f.Errno)}
	}
	return os.Rename(oldpath, newpath)
}

func Remove(name string) error {
	n, f := enter("os.Remove")
	logCall(n, "os.Remove", name, -1, "", f)
	if f != nil {
		if f.Kind == "crash" {
			crashNow()
		}
		return &fs.PathError{Op: "remove", Path: name, Err: errnoOf(f.Errno)}
	}
	return os.Remove(name)
}

// Now replaces time.Now: lox reads no clock today; if it ever does, the
// simulator owns it. The simulated clock is the real one shifted by a per-run
// offset (whole days and hours), so two generations of the same sources never
// share a calendar date by accident.
func Now() time.Time {
	return time.Now().Add(time.Duration(op.ClockSkewHours) * time.Hour)
}
