// Package hrt is the harness runtime linked with the simulated grammar
// packages (Stage B).
package hrt
