package main

import (
	"bytes"
	"encoding/json"
	"fmt"
	gotoken "go/token"
	"os"
	"strings"
	"unicode/utf8"

	"github.com/dcaiafa/loxlex/simplelexer"

	"verifsim/core"
	"verifsim/hrt"
	"verifsim/specgen"
)

// C11Run is one simulated lexing of a byte input by the real simplelexer
// driving the real generated state machine, with the conservation monitor
// interposed at the StateMachine seam.
type C11Run struct {
	Pkg    string   `json:"pkg"`
	Input  []byte   `json:"input"`
	Faults []string `json:"faults,omitempty"`
}

type seg struct {
	Start, End int
	Kind       string // emitted | dropped | error
}

type pendingTok struct {
	start, end, typ int
}

type monitor struct {
	sm         hrt.StateMachine
	lx         *simplelexer.Lexer
	file       *gotoken.File
	in         []byte
	cursor     int
	segStart   int
	pushes     int
	maxPushes  int
	atBoundary bool
	pendingErr bool
	pending    *pendingTok
	segs       []seg
	sawEOF     bool
	last       []int // last results
	errTokens  int
	openAtEOF  bool
}

func abort(class, format string, a ...any) {
	panic(&hrt.Abort{Class: class, Detail: fmt.Sprintf(format, a...)})
}

func (m *monitor) loopShape() string {
	n := len(m.last)
	if n < 6 {
		return "short"
	}
	tail := m.last[n-6:]
	all := func(v int) bool {
		for _, x := range tail {
			if x != v {
				return false
			}
		}
		return true
	}
	switch {
	case all(1):
		return "empty-token-loop"
	case all(2):
		return "empty-discard-loop"
	case all(3):
		return "try-again-loop"
	case all(0):
		return "consume-at-eof-loop"
	}
	return "mixed-loop"
}

func (m *monitor) PushRune(r rune) int {
	hrt.Tick("seam:PushRune")
	m.pushes++
	if m.pushes > m.maxPushes {
		abort("no-eof:"+m.loopShape(), "lexing %d bytes needed more than %d PushRune calls (cursor at byte %d); last results %v", len(m.in), m.maxPushes, m.cursor, m.last[max(0, len(m.last)-8):])
	}
	if m.atBoundary {
		off := m.file.Offset(m.lx.Pos())
		if m.pendingErr {
			if off < m.segStart || off > len(m.in) {
				abort("error-stretch-bounds", "ERROR token at byte %d: the driver resumes at byte %d", m.segStart, off)
			}
			m.segs = append(m.segs, seg{m.segStart, off, "error"})
			m.cursor, m.segStart = off, off
			m.pendingErr = false
		} else if off != m.segStart {
			abort("segment-start-mismatch", "the driver starts a token at byte %d, the state machine closed the previous one at byte %d", off, m.segStart)
		}
		m.atBoundary = false
	}
	want, width := rune(-1), 0
	if m.cursor < len(m.in) {
		want, width = utf8.DecodeRune(m.in[m.cursor:])
	}
	if r != want {
		abort("harness-rune-mismatch", "monitor expected rune %q at byte %d, driver pushed %q", want, m.cursor, r)
	}
	res := m.sm.PushRune(r)
	m.last = append(m.last, res)
	if len(m.last) > 64 {
		m.last = m.last[len(m.last)-16:]
	}
	switch res {
	case 0:
		if r != -1 {
			m.cursor += width
		}
	case 1:
		m.segs = append(m.segs, seg{m.segStart, m.cursor, "emitted"})
		m.pending = &pendingTok{m.segStart, m.cursor, m.sm.Token()}
		m.segStart = m.cursor
		m.atBoundary = true
	case 2:
		m.segs = append(m.segs, seg{m.segStart, m.cursor, "dropped"})
		m.segStart = m.cursor
		m.atBoundary = true
	case 3:
		// try again: the segment stays open (accumulation)
	case 4:
		if m.cursor != len(m.in) {
			abort("eof-before-end", "EOF reported at byte %d of %d", m.cursor, len(m.in))
		}
		if m.segStart != m.cursor {
			m.openAtEOF = true
			abort("text-swallowed-at-eof", "EOF reported while bytes %d..%d (%q) are accumulated but neither emitted, discarded nor reported by an ERROR token",
				m.segStart, m.cursor, clip(m.in[m.segStart:m.cursor]))
		}
		m.sawEOF = true
	default:
		m.pendingErr = true
		m.atBoundary = true
	}
	return res
}

func clip(b []byte) string {
	if len(b) > 40 {
		return string(b[:40]) + "…"
	}
	return string(b)
}

func (m *monitor) Token() int { return m.sm.Token() }

func (m *monitor) Reset() { m.sm.Reset() }

func (m *monitor) onToken(t simplelexer.Token, typ int, eof, errT int) {
	switch typ {
	case eof:
		if !m.sawEOF {
			abort("eof-token-without-eof-result", "the driver returned EOF but the state machine never reported it")
		}
	case errT:
		m.errTokens++
		if !m.pendingErr {
			abort("error-token-without-error-result", "ERROR token at %d without an error result", m.file.Offset(t.Pos))
		}
		if off := m.file.Offset(t.Pos); off != m.segStart {
			abort("error-token-position", "ERROR token positioned at byte %d, the failed segment starts at byte %d", off, m.segStart)
		}
	default:
		p := m.pending
		if p == nil {
			abort("token-without-accept", "token %d returned without an accept result", typ)
		}
		if typ != p.typ || !bytes.Equal(t.Str, m.in[p.start:p.end]) || m.file.Offset(t.Pos) != p.start {
			abort("token-text-mismatch", "token type %d text %q at byte %d; the state machine accepted type %d over bytes %d..%d %q",
				typ, clip(t.Str), m.file.Offset(t.Pos), p.typ, p.start, p.end, clip(m.in[p.start:p.end]))
		}
		m.pending = nil
	}
}

type lexOutcome struct {
	Verdict hrt.Verdict
	Mon     *monitor
	Tokens  int
}

func (w *World) execLex(run *C11Run) *lexOutcome {
	in := run.Input
	runes := utf8.RuneCount(in)
	lines := bytes.Count(in, []byte("\n"))
	mon := &monitor{sm: w.P.NewSM(), in: in, maxPushes: 4*(runes+lines) + 16}
	fset := gotoken.NewFileSet()
	mon.file = fset.AddFile("input", -1, len(in))
	out := &lexOutcome{Mon: mon}
	eof, errT := w.P.Tokens["EOF"], w.P.Tokens["ERROR"]
	out.Verdict = hrt.RunSolo(int64(1_000_000+4000*len(in)), func() {
		mon.lx = simplelexer.New(simplelexer.Config{StateMachine: mon, File: mon.file, Input: in})
		for {
			t, typ := mon.lx.ReadToken()
			mon.onToken(t, typ, eof, errT)
			out.Tokens++
			if typ == eof {
				// EOF is sticky
				_, typ2 := mon.lx.ReadToken()
				if typ2 != eof {
					abort("eof-not-sticky", "a second ReadToken after EOF returned token type %d", typ2)
				}
				break
			}
		}
		// every character accounted for exactly once and in order
		pos := 0
		for _, s := range mon.segs {
			if s.Start != pos || s.End < s.Start {
				abort("tiling", "segments do not tile the input: %v", mon.segs)
			}
			pos = s.End
		}
		if pos != len(in) {
			abort("tiling", "segments end at byte %d of %d", pos, len(in))
		}
	})
	return out
}

func (w *World) judgeC11(o *lexOutcome) (map[string]string, string) {
	switch o.Verdict.Kind {
	case "ok":
		return nil, ""
	case "budget":
		return map[string]string{"class": "tick-budget", "where": "lexer"}, fmt.Sprintf("lexing did not finish within %d ticks (last site %s)", o.Verdict.Ticks, o.Verdict.Site)
	case "panic":
		return map[string]string{"class": "panic", "fn": o.Verdict.Site, "msg": reNum.ReplaceAllString(o.Verdict.Detail, "N")}, "lexer panicked: " + o.Verdict.Detail
	default:
		return map[string]string{"class": o.Verdict.Site}, o.Verdict.Detail
	}
}

// ---------------------------------------------------------------------------
// Input generation: walk the rules' expressions so that the text mostly lexes.

type lexGen struct {
	r      *core.Rand
	macros map[string]*specgen.LexExpr
}

var c11Alphabet = []rune{'a', 'b', 'c', 'x', 'y', 'z', '0', '1', '9', '<', '>', '"', '{', '}', '(', ')', '+', '-', '#', '*', '/', ' ', '\n', '\t', 'é', '世', '😀', '%', '@'}

func (g *lexGen) class(e *specgen.LexExpr) rune {
	in := func(r rune, rs [][2]rune) bool {
		for _, x := range rs {
			if r >= x[0] && r <= x[1] {
				return true
			}
		}
		return false
	}
	for try := 0; try < 30; try++ {
		var c rune
		if !e.Neg && len(e.Ranges) > 0 && try < 20 {
			rg := e.Ranges[g.r.Intn(len(e.Ranges))]
			c = rg[0] + rune(g.r.Intn(int(rg[1]-rg[0])+1))
		} else {
			c = c11Alphabet[g.r.Intn(len(c11Alphabet))]
		}
		ok := in(c, e.Ranges) != e.Neg
		if ok && len(e.Minus) > 0 && in(c, e.Minus) {
			ok = false
		}
		if ok {
			return c
		}
	}
	return 'a'
}

func (g *lexGen) gen(e *specgen.LexExpr, sb *strings.Builder, depth int) {
	reps := 1
	switch e.Card {
	case specgen.COpt:
		reps = g.r.Intn(2)
	case specgen.CStar, specgen.CStarNG:
		reps = g.r.Intn(4)
	case specgen.CPlus, specgen.CPlusNG:
		reps = 1 + g.r.Intn(3)
	}
	for i := 0; i < reps; i++ {
		switch e.Op {
		case specgen.LLit:
			sb.WriteString(e.Lit)
		case specgen.LClass:
			sb.WriteRune(g.class(e))
		case specgen.LAny:
			sb.WriteRune(c11Alphabet[g.r.Intn(len(c11Alphabet))])
		case specgen.LRef:
			if m := g.macros[e.Ref]; m != nil && depth < 6 {
				g.gen(m, sb, depth+1)
			}
		case specgen.LSeq:
			for _, k := range e.Kids {
				g.gen(k, sb, depth+1)
			}
		case specgen.LAlt:
			g.gen(e.Kids[g.r.Intn(len(e.Kids))], sb, depth+1)
		}
	}
}

func (w *World) genInput(r *core.Rand) *C11Run {
	run := &C11Run{Pkg: w.E.Pkg}
	g := &lexGen{r: r, macros: map[string]*specgen.LexExpr{}}
	var rules []*specgen.LexRule
	for _, m := range w.E.Spec.Modes {
		for _, lr := range m.Rules {
			switch lr.Kind {
			case specgen.RMacro:
				g.macros[lr.Name] = lr.Expr
			case specgen.RTok, specgen.RFrag:
				rules = append(rules, lr)
			}
		}
	}
	var sb strings.Builder
	n := r.Intn(14)
	if r.Intn(30) == 0 {
		n = 40 + r.Intn(40)
	}
	for i := 0; i < n && len(rules) > 0; i++ {
		switch r.Intn(10) {
		case 0:
			sb.WriteRune(c11Alphabet[r.Intn(len(c11Alphabet))])
		case 1:
			sb.WriteString([]string{" ", "\n", " ", "\t"}[r.Intn(4)])
		default:
			g.gen(rules[r.Intn(len(rules))].Expr, &sb, 0)
			if r.Intn(3) == 0 {
				sb.WriteString(" ")
			}
		}
	}
	if r.Intn(12) == 0 {
		// deep nesting: a rule that pushes a mode, matched 17-60 times in a row,
		// then (sometimes) as many matches of a rule that pops
		var push, pop []*specgen.LexRule
		for _, lr := range rules {
			for _, a := range lr.Actions {
				if a.Kind == specgen.APush {
					push = append(push, lr)
				}
				if a.Kind == specgen.APop {
					pop = append(pop, lr)
				}
			}
		}
		if len(push) > 0 {
			depth := 17 + r.Intn(44)
			pr := push[r.Intn(len(push))]
			for i := 0; i < depth; i++ {
				g.gen(pr.Expr, &sb, 0)
			}
			if len(pop) > 0 && r.Intn(3) > 0 {
				qr := pop[r.Intn(len(pop))]
				for i := 0; i < depth-r.Intn(3); i++ {
					g.gen(qr.Expr, &sb, 0)
				}
			}
			run.Faults = append(run.Faults, fmt.Sprintf("deepnesting@0+%d", depth))
		}
	}
	in := []byte(sb.String())
	if r.Intn(6) == 0 {
		// a lexical error first (the driver resynchronises and resets the
		// machine), then the rest of the input
		in = append([]byte{[]byte("\x01$`")[r.Intn(3)], '\n'}, in...)
		run.Faults = append(run.Faults, "errorprefix@0")
	}
	// faults on the stored bytes / the end of the stream
	nf := r.Intn(4)
	for f := 0; f < nf; f++ {
		if len(in) == 0 {
			break
		}
		pos := r.Intn(len(in) + 1)
		switch r.Intn(7) {
		case 0, 1: // truncation at an arbitrary byte, also inside a multi-byte rune
			in = in[:pos]
			run.Faults = append(run.Faults, fmt.Sprintf("truncate@%d", pos))
		case 2:
			if pos < len(in) {
				b := append([]byte{}, in...)
				b[pos] ^= 1 << uint(r.Intn(8))
				in = b
				run.Faults = append(run.Faults, fmt.Sprintf("bitflip@%d", pos))
			}
		case 3:
			stray := []byte{0xff, 0x80, 0xc3, 0xed, '$', '`', 0x00, 0xf4}[r.Intn(8)]
			in = append(in[:pos:pos], append([]byte{stray}, in[pos:]...)...)
			run.Faults = append(run.Faults, fmt.Sprintf("stray@%d=%#x", pos, stray))
		case 4:
			k := 1 + r.Intn(5)
			if pos+k > len(in) {
				k = len(in) - pos
			}
			in = append(in[:pos:pos], in[pos+k:]...)
			run.Faults = append(run.Faults, fmt.Sprintf("delete@%d+%d", pos, k))
		case 5:
			b := append([]byte{}, in...)
			for i := range b {
				if b[i] == '\n' {
					b[i] = ' '
				}
			}
			in = b
			run.Faults = append(run.Faults, "newlines-removed@0")
		case 6: // invalid encodings: surrogate, overlong
			bad := [][]byte{{0xed, 0xa0, 0x80}, {0xc0, 0xaf}, {0xf8, 0x88, 0x80, 0x80, 0x80}, {0xe2, 0x82}}[r.Intn(4)]
			in = append(in[:pos:pos], append(append([]byte{}, bad...), in[pos:]...)...)
			run.Faults = append(run.Faults, fmt.Sprintf("badutf8@%d", pos))
		}
	}
	run.Input = in
	return run
}

func (w *World) minimiseLex(run *C11Run, sig map[string]string) *C11Run {
	cur := *run
	key := sigKey(sig)
	same := func(in []byte) bool {
		c := cur
		c.Input = in
		s, _ := w.judgeC11(w.execLex(&c))
		return s != nil && sigKey(s) == key
	}
	for chunk := len(cur.Input) / 2; chunk >= 1; chunk /= 2 {
		for i := 0; i+chunk <= len(cur.Input); {
			cand := append(append([]byte{}, cur.Input[:i]...), cur.Input[i+chunk:]...)
			if same(cand) {
				cur.Input = cand
			} else {
				i += chunk
			}
		}
	}
	cur.Faults = append(cur.Faults, fmt.Sprintf("minimised from %d bytes", len(run.Input)))
	return &cur
}

func (w *World) oneC11(run *C11Run, res *Result) {
	if tooManyHangs(res) {
		res.Stats["runs_skipped_after_hang_cap"]++
		return
	}
	o := w.execLex(run)
	if o.Verdict.Kind == "budget" || strings.HasPrefix(o.Verdict.Site, "no-eof") {
		res.Stats["budget_verdicts"]++
	}
	sig, detail := w.judgeC11(o)
	res.Runs++
	res.Stats["pushrune_calls"] += int64(o.Mon.pushes)
	res.Stats["bytes"] += int64(len(run.Input))
	res.Stats["tokens"] += int64(o.Tokens)
	res.Stats["ticks"] += o.Verdict.Ticks
	res.Stats["probe:error_tokens"] += int64(o.Mon.errTokens)
	for _, s := range o.Mon.segs {
		res.Stats["segments:"+s.Kind]++
	}
	for _, f := range run.Faults {
		if i := strings.Index(f, "@"); i > 0 {
			res.Stats["fault:"+f[:i]]++
		}
	}
	if len(run.Faults) > 0 {
		res.markDistinct(hash64(run.Pkg, string(run.Input)))
	} else {
		res.Stats["fault_free_runs"]++
	}
	if sig != nil {
		if strings.HasPrefix(sig["class"], "harness-") {
			res.Infra = "monitor inconsistency: " + detail
			return
		}
		r2 := w.minimiseLex(run, sig)
		res.violation(sig, detail, func() any {
			return map[string]any{"mode": "c11", "run": r2, "spec": w.E.Spec, "lox": w.E.Lox}
		})
		if v := res.vidx[sigKey(sig)]; v != nil && v.Count == 1 {
			o2 := w.execLex(r2)
			_, d2 := w.judgeC11(o2)
			v.Detail = fmt.Sprintf("%s\nminimised input: %q\nsegments: %v\nlexer section:\n%s", d2, string(r2.Input), o2.Mon.segs, w.E.Spec.LexerText())
		}
	}
	if res.Runs%4001 == 1 {
		res.sample(map[string]any{"pkg": run.Pkg, "input": string(run.Input), "faults": run.Faults, "segments": o.Mon.segs, "tokens": o.Tokens, "pushrune_calls": o.Mon.pushes, "verdict": o.Verdict.Kind})
	}
}

func runC11(ws []*World, seed uint64, runs, shard, nshard int, res *Result) {
	for wi, w := range ws {
		if wi%nshard != shard {
			continue
		}
		// short systematic inputs first: the empty input and every 1- and 2-rune string over a small alphabet
		small := []rune{'a', 'x', '0', '<', '>', '"', ' ', '\n', 'é', '#'}
		w.oneC11(&C11Run{Pkg: w.E.Pkg, Input: nil}, res)
		for _, a := range small {
			w.oneC11(&C11Run{Pkg: w.E.Pkg, Input: []byte(string(a))}, res)
			for _, b := range small {
				w.oneC11(&C11Run{Pkg: w.E.Pkg, Input: []byte(string(a) + string(b))}, res)
			}
		}
		for i := 0; i < runs; i++ {
			rr := core.NewRand(core.Derive(seed, "c11-"+w.E.Pkg, i))
			w.oneC11(w.genInput(rr), res)
			if res.Infra != "" {
				return
			}
		}
	}
}

func replayC11(ws []*World, path string, res *Result) {
	data, err := os.ReadFile(path)
	if err != nil {
		res.Infra = err.Error()
		return
	}
	var doc struct {
		Run *C11Run `json:"run"`
	}
	if err := json.Unmarshal(data, &doc); err != nil || doc.Run == nil {
		res.Infra = "bad replay file"
		return
	}
	for _, w := range ws {
		if w.E.Pkg == doc.Run.Pkg {
			o := w.execLex(doc.Run)
			sig, detail := w.judgeC11(o)
			res.Runs++
			if sig != nil {
				detail = fmt.Sprintf("%s\ninput: %q\nsegments: %v", detail, string(doc.Run.Input), o.Mon.segs)
				res.violation(sig, detail, nil)
			}
			return
		}
	}
	res.Infra = "replay: package not linked: " + doc.Run.Pkg
}
