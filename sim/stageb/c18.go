package stageb

import (
	"errors"
	"fmt"
	"os"
	"regexp"
	"strings"
	"time"

	"verifsim/core"
	"verifsim/specgen"
)

func mixedCandidate(seed uint64) Candidate {
	return func(i int) (*specgen.Spec, bool) {
		r := core.NewRand(core.Derive(seed, "c18-opt", i))
		opt := specgen.Options{RichParser: true, RealLexable: true}
		lexable := true
		if r.Intn(3) == 0 {
			opt = specgen.Options{RichParser: true, RichLexer: true}
			lexable = false
		}
		s := specgen.Generate(core.Derive(seed, "c18-spec", i), opt)
		if r.Intn(2) == 0 {
			s.OnBounds = true
		}
		return s, lexable
	}
}

var reDigits = regexp.MustCompile(`[0-9]+`)

var reRaceFn = regexp.MustCompile(`zzverif/g/(g[0-9]+)(?:/parser)?\.([^\s(]+(?:\([^)]*\))?[^\s(]*)\(`)

// raceSignatures extracts, per race report, the innermost generated function.
func raceSignatures(stderr string) []core.Signature {
	var out []core.Signature
	for _, block := range strings.Split(stderr, "WARNING: DATA RACE")[1:] {
		fn := "outside-generated-code"
		if m := reRaceFn.FindStringSubmatch(block); m != nil {
			fn = m[2]
		}
		out = append(out, core.Signature{"class": "data-race", "fn": fn})
	}
	return out
}

func CheckC18(tier string, seed uint64, rep *core.Reporter) (*core.Evidence, error) {
	start := time.Now()
	n, runs, freeRuns := 16, 6000, 600
	if tier == "thorough" {
		n, runs, freeRuns = 60, 200000, 20000
	}
	if v := os.Getenv("VERIF_C18_GRAMMARS"); v != "" {
		fmt.Sscan(v, &n)
	}
	w, err := Build("C18", n, mixedCandidate(seed), true)
	if err != nil {
		return nil, err
	}
	defer w.Close()
	nglobals := 0
	globalNames := map[string]bool{}
	for _, gs := range w.Globals {
		nglobals += len(gs)
		for _, g := range gs {
			globalNames[g] = true
		}
	}
	ctl, err := w.RunShards(w.Runsim, "c18", seed, runs, 14, nil, nil, 60*time.Minute)
	if err != nil {
		// A program that links several generated packages and panics before
		// any parse has run (package initialisation) is a verdict about the
		// generated code, not trouble of the harness: "instances of different
		// grammars linked into one program" cannot even start.
		var hc *HarnessCrash
		if errors.As(err, &hc) && strings.Contains(hc.Stderr, "panic:") && strings.Contains(hc.Stderr, "init") && !strings.Contains(hc.Stderr, "main.main(") {
			msg := firstLine(hc.Stderr[strings.Index(hc.Stderr, "panic:"):])
			rep.Report(core.Signature{"class": "linked-program-panics-at-start", "msg": reDigits.ReplaceAllString(msg, "N")},
				"the program that links the generated packages panics during package initialisation:\n"+tailS2(hc.Stderr, 2500),
				map[string]any{"mode": "c18-link", "grammars": n, "note": "re-run the check: every world with two packages of the same name reproduces it"})
			wall := time.Since(start).Seconds()
			return &core.Evidence{PropertyID: "C18", Tier: tier, Seed: int64(seed), Level: "exploration", WallS: wall,
				Coverage: map[string]any{"evaluations": 1, "distinct_nontrivial": 2, "rule": "the linked program did not start; see the violation", "samples": []any{msg},
					"grammars_linked": n}}, nil
		}
		return nil, err
	}
	report(rep, ctl)
	// Shared mutable state makes results depend on what ran earlier in the
	// same process: once a violation is established the probe is skipped
	// instead of turning it into exit status 2.
	detHash := "skipped: violations found"
	if len(ctl.Violations) == 0 {
		detHash, err = w.DeterminismProbe(w.Runsim, "c18", seed, 700, nil)
		if err != nil {
			return nil, err
		}
	}
	free, err := w.RunShards(w.RunsimRace, "c18", seed^0x5eed, freeRuns, 8, []string{"-free"},
		[]string{"GORACE=halt_on_error=0 exitcode=0", "GOMAXPROCS=16"}, 60*time.Minute)
	if err != nil {
		return nil, err
	}
	report(rep, free)
	races := raceSignatures(free.Stderr)
	for i, sig := range races {
		blocks := strings.Split(free.Stderr, "WARNING: DATA RACE")
		rep.Report(sig, "race detector report (free-running configuration; replay = same seed, same task set, -race):\n"+tailS2(blocks[i+1], 2500),
			map[string]any{"mode": "c18-free", "seed": seed ^ 0x5eed, "runs": freeRuns, "note": "statistical: re-run the check with the same VERIF_SEED"})
	}
	var names []string
	for g := range globalNames {
		names = append(names, g)
	}
	samples := append(ctl.Samples, free.Samples...)
	if len(samples) == 0 {
		samples = append(samples, "no sample recorded")
	}
	wall := time.Since(start).Seconds()
	ev := &core.Evidence{
		PropertyID: "C18", Tier: tier, Seed: int64(seed), Level: "exploration",
		Coverage: map[string]any{
			"evaluations":         ctl.Runs + free.Runs,
			"distinct_nontrivial": ctl.Distinct,
			"rule": "one evaluation = 2-7 parser/lexer instances (same grammar or mixed grammars linked into one program, with stream faults, error recovery and _onBounds) run first one after another, then concurrently. Controlled configuration: real goroutines released one at a time by a seeded scheduler at P4 yield points inside the generated code and at every harness seam; oracle = per-task history equality with sequential execution + deep hash of every package-level variable of the generated files unchanged. Free configuration: the same task sets on free-running goroutines under the race detector. " +
				"distinct_nontrivial = distinct (task set, schedule trace) among controlled runs with more switches than tasks",
			"samples":                  samples,
			"exhaustive":               false,
			"grammars_linked":          n,
			"controlled_runs":          ctl.Runs,
			"free_running_race_runs":   free.Runs,
			"race_reports":             len(races),
			"scheduler_switches":       ctl.Stats["switches"],
			"tasks":                    ctl.Stats["tasks"] + free.Stats["tasks"],
			"tasks_excluded":           ctl.Stats["tasks_excluded_nonterminating_alone"],
			"policies":                 statsSubset(ctl.Stats, "policy:"),
			"task_kinds":               statsSubset(ctl.Stats, "taskkind:"),
			"runs_same_grammar":        ctl.Stats["runs_same_grammar"],
			"runs_concurrent_phase_first": ctl.Stats["runs_concurrent_phase_first"],
			"runs_mixed_grammars":      ctl.Stats["runs_mixed_grammars"],
			"package_level_vars_watched": nglobals,
			"package_level_var_names":  names,
			"p4_yield_sites":           w.YieldSites,
			"specs_rejected_by_lox":    w.Rejected,
			"runs_per_hour":            int(float64(ctl.Runs+free.Runs) / wall * 3600),
			"world_generation_s":       w.GenWall.Seconds(),
			"world_build_s":            w.BuildWall.Seconds(),
			"simulated_time":           "none: logical steps only",
			"components_real":          []string{"lox binary built from the current tree", "generated lexers and parsers compiled by the Go compiler (plain and -race builds)", "unmodified simplelexer", "Go race detector"},
			"components_simulated":     []string{"which goroutine runs next and for how many ticks (controlled configuration)", "token and byte streams"},
			"components_stubbed":       []string{"stub lexer in parse-stub tasks"},
			"determinism_probe":        "controlled configuration, same seed re-run with 14 shards/GOMAXPROCS=4 and 5 shards/GOMAXPROCS=1: all counters (incl. scheduler switches) identical, hash " + detHash,
			"stats_hash_controlled":    ctl.StatsHash(),
			"known_findings_hit":       rep.KnownHits,
		},
		Assumptions: []string{
			"the free-running half is statistical: its interleavings are the Go scheduler's, only the race detector's happens-before verdict is relied on",
			"package-level state is whatever `var` declarations the generated files contain (found by go/ast at check time)",
		},
		WallS: wall,
	}
	return ev, nil
}

func tailS2(s string, n int) string {
	if len(s) > n {
		return s[:n] + "…"
	}
	return s
}

var _ = specgen.One
