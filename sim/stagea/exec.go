package stagea

import (
	"crypto/sha256"
	"encoding/hex"
	"fmt"
	"os"
	"path/filepath"
	"sort"
	"strings"
	"sync"
)

// A Variant is one state of the user's sources: the .lox files and the Go
// files of the package. Generated files are never part of a variant.
type Variant struct {
	Name  string            `json:"name"`
	Files map[string]string `json:"files"`
	Note  string            `json:"note,omitempty"`
}

func (v *Variant) Hash() string {
	h := sha256.New()
	names := make([]string, 0, len(v.Files))
	for n := range v.Files {
		names = append(names, n)
	}
	sort.Strings(names)
	for _, n := range names {
		fmt.Fprintf(h, "%s\x00%d\x00%s\x00", n, len(v.Files[n]), v.Files[n])
	}
	return hex.EncodeToString(h.Sum(nil)[:8])
}

// Op is one step of a run on a project directory.
type Op struct {
	Kind    string            `json:"kind"` // Gen | CrashGen | FailGen | DeleteGen | Plant
	Variant string            `json:"variant,omitempty"`
	Binary  string            `json:"binary,omitempty"` // sim | plain
	Map     MapCfg            `json:"map,omitempty"`
	Cwd     string            `json:"cwd,omitempty"`
	Report  bool              `json:"report,omitempty"`
	Fault   *Fault            `json:"fault,omitempty"`
	File    string            `json:"file,omitempty"`  // DeleteGen
	Plant   map[string]string `json:"plant,omitempty"` // Plant: generated files of another grammar
}

func (o Op) String() string {
	switch o.Kind {
	case "Gen":
		return fmt.Sprintf("Gen(%s,%s,map=%s/%d,cwd=%s,report=%v)", o.Variant, o.Binary, o.Map.Mode, o.Map.Seed, o.Cwd, o.Report)
	case "CrashGen":
		return fmt.Sprintf("CrashGen(%s,call=%d/%s,torn=%s,pct=%d)", o.Variant, o.Fault.Call, o.Fault.Fn, o.Fault.Torn, o.Fault.Pct)
	case "FailGen":
		return fmt.Sprintf("FailGen(%s,call=%d/%s,errno=%s,short=%v)", o.Variant, o.Fault.Call, o.Fault.Fn, o.Fault.Errno, o.Fault.Short)
	case "DeleteGen":
		return "Delete(" + o.File + ")"
	case "MangleGen":
		return "MangleGen(" + o.File + ")"
	case "Plant":
		return "Plant(" + strings.Join(sortedKeys(o.Plant), ",") + ")"
	}
	return o.Kind
}

func sortedKeys(m map[string]string) []string {
	ks := make([]string, 0, len(m))
	for k := range m {
		ks = append(ks, k)
	}
	sort.Strings(ks)
	return ks
}

type Run struct {
	ID       string              `json:"id"`
	DirName  string              `json:"dir_name"`
	Variants map[string]*Variant `json:"variants"`
	Ops      []Op                `json:"ops"`
}

// Observation is what a user can see of one generation.
type Observation struct {
	ExitClass string            `json:"exit_class"` // ok | fail | panic | hang | crash(sim)
	Exit      int               `json:"exit"`
	Written   []string          `json:"written"` // generated files this process created or modified (observed on the directory)
	Intended  map[string]string `json:"-"`       // sim: digest of the bytes passed to os.WriteFile, per file, when that seam was used
	Files     map[string]string `json:"-"`       // bytes of the written files
	Disk      map[string]string `json:"-"`       // bytes of every generated file present in the directory afterwards
	FileSha   map[string]string `json:"file_sha"`
	Report    string            `json:"-"`
	ReportSha string            `json:"report_sha"`
	Stderr    string            `json:"-"`
	Calls     []SideEvent       `json:"-"`
	Ticks     int64             `json:"ticks"`
	P1        []string          `json:"-"`
	Ties      int               `json:"ties"`
	FiredSim  bool              `json:"fault_fired"`
}

func shaS(b []byte) string {
	h := sha256.Sum256(b)
	return hex.EncodeToString(h[:8])
}

func classify(r *GenResult) string {
	switch {
	case r.TimedOut:
		return "watchdog"
	case r.Exit == 0:
		return "ok"
	case r.Exit == 97:
		return "hang"
	case r.Exit == 98:
		return "crash(sim)"
	case r.Exit == 96:
		return "infra"
	case r.Exit == 2 && (strings.Contains(string(r.Stderr), "goroutine ") || strings.Contains(string(r.Stderr), "panic:") || strings.Contains(string(r.Stderr), "fatal error:")):
		return "panic"
	case r.Exit > 2:
		return "panic"
	default:
		return "fail"
	}
}

func Observe(r *GenResult, sim bool) *Observation {
	o := &Observation{ExitClass: classify(r), Exit: r.Exit, Files: map[string]string{}, FileSha: map[string]string{},
		Report: string(r.Stdout), ReportSha: shaS(r.Stdout), Stderr: string(r.Stderr)}
	o.Disk = map[string]string{}
	for f, b := range r.Files {
		o.Disk[f] = string(b)
	}
	// Files written by this process, as observed on the directory.
	for _, f := range GenFiles {
		if r.Touched[f] {
			b := r.Files[f]
			o.Written = append(o.Written, f)
			o.Files[f] = string(b)
			o.FileSha[f] = shaS(b)
		}
	}
	if sim {
		// Where the write went through the os.WriteFile seam the intended
		// bytes are known: what is on disk must be exactly that.
		o.Intended = map[string]string{}
		for f, sum := range r.Written() {
			o.Intended[f] = sum
			if b, ok := r.Files[f]; !ok || shaSimrt(b) != sum {
				o.FileSha[f] = shaS(r.Files[f]) + "(disk differs from write)"
			}
		}
		o.Calls = r.Calls()
		o.Ticks = r.Ticks()
		o.P1 = r.P1Sites()
		o.Ties = r.TiesSeen()
		for _, e := range r.Side {
			if e.Fault != nil {
				o.FiredSim = true
			}
		}
	}
	sort.Strings(o.Written)
	return o
}

// shaSimrt is the digest simrt logs for a write (first 8 bytes of SHA-256).
func shaSimrt(b []byte) string { return shaS(b) }

// Executor runs ops on project directories inside one Tree.
type Executor struct {
	T      *Tree
	mu     sync.Mutex
	seq    int
	Gens   int // processes started
	Full   int // generations that reached packages.Load
	Budget int64
}

func (x *Executor) tag(prefix string) string {
	x.mu.Lock()
	defer x.mu.Unlock()
	x.seq++
	return fmt.Sprintf("%s-%d", prefix, x.seq)
}

// SetSources makes dir hold exactly the variant's files plus whatever *.gen.go
// is already there (the user edits sources; generated files stay).
func SetSources(dir string, v *Variant, known ...map[string]bool) error {
	if err := os.MkdirAll(dir, 0o755); err != nil {
		return err
	}
	ents, err := os.ReadDir(dir)
	if err != nil {
		return err
	}
	// A user who switches to another version of the sources removes the source
	// files that version no longer has - and nothing else: files the generator
	// itself left behind (a lock file, a temporary file, *.gen.go) stay.
	for _, e := range ents {
		n := e.Name()
		if isGen(n) {
			continue
		}
		if _, keep := v.Files[n]; keep {
			continue
		}
		for _, k := range known {
			if k[n] {
				os.RemoveAll(filepath.Join(dir, n))
			}
		}
	}
	// Like a user editing sources: only files whose content differs are
	// written (unchanged files keep their modification time - an "up to date"
	// shortcut in the generator must not be fooled by untouched grammar files).
	// In a fresh directory everything is created, in the simulator's order,
	// which decides the directory listing order.
	for _, n := range CreationOrder(v.Files, dir) {
		p := filepath.Join(dir, n)
		if old, err := os.ReadFile(p); err == nil && string(old) == v.Files[n] {
			continue
		}
		os.Remove(p)
		if err := os.WriteFile(p, []byte(v.Files[n]), 0o644); err != nil {
			return err
		}
	}
	return nil
}

func isGen(n string) bool {
	for _, g := range GenFiles {
		if n == g {
			return true
		}
	}
	return false
}

// RunGen executes one generation-like op and returns what was observed.
func (x *Executor) RunGen(dir string, op Op, tagPrefix string) (*Observation, error) {
	inv := Invocation{Dir: dir, CwdMode: op.Cwd, Report: op.Report}
	sim := op.Binary != "plain"
	if sim {
		inv.Bin = x.T.LoxSim
		budget := x.Budget
		if budget == 0 {
			budget = TickBudget
		}
		od := &OpDesc{Run: tagPrefix, Map: op.Map, Ticks: budget}
		if op.Fault != nil {
			od.Faults = []Fault{*op.Fault}
		}
		inv.Op = od
	} else {
		inv.Bin = x.T.Lox
	}
	res, err := x.T.Generate(inv, x.tag(tagPrefix))
	if err != nil {
		return nil, err
	}
	o := Observe(res, sim)
	x.mu.Lock()
	x.Gens++
	for _, c := range o.Calls {
		if c.Fn == "packages.Load" && c.Fault == nil {
			x.Full++
		}
	}
	if !sim && res.Exit == 0 {
		x.Full++
	}
	x.mu.Unlock()
	if o.ExitClass == "infra" {
		return nil, Infra("lox-sim reported an infrastructure error: %s", o.Stderr)
	}
	if o.ExitClass == "watchdog" {
		// A real endless loop in lox-sim ends with the tick budget (exit 97)
		// long before the wall-clock watchdog; reaching the watchdog means the
		// machine is overloaded or a subprocess stalled. Never a violation.
		return nil, Infra("wall-clock watchdog expired for %s in %s (not a verdict about lox)", op.String(), dir)
	}
	return o, nil
}
