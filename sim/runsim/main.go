// runsim is the Stage B harness: it is linked with N generated grammar
// packages (each registers itself with hrt) and simulates them under token- and
// rune-stream faults and seeded schedules. The coordinator (verif) builds it
// inside a scratch copy of the lox module and reads its JSON result.
package main

import (
	"encoding/json"
	"flag"
	"fmt"
	"os"
	"sort"

	"verifsim/core"
	"verifsim/earley"
	"verifsim/hrt"
	"verifsim/specgen"
)

type SpecEntry struct {
	Pkg         string        `json:"pkg"`
	Spec        *specgen.Spec `json:"spec"`
	RealLexable bool          `json:"real_lexable"`
	Lox         string        `json:"lox"`
}

// World is one linked grammar package with its reference models.
type World struct {
	E      *SpecEntry
	P      *hrt.Pkg
	GE     *earley.Grammar // @error as terminal ERROR
	G0     *earley.Grammar // productions mentioning @error removed
	T2G    map[int]int     // token type -> grammar terminal id
	G2T    []int           // grammar terminal id -> token type
	NProds int
	ErrCtx map[int]bool // terminals that directly precede @error in some production
}

type Viol struct {
	Sig    map[string]string `json:"sig"`
	Detail string            `json:"detail"`
	Replay any               `json:"replay"`
	Count  int               `json:"count"`
}

type Result struct {
	Mode       string           `json:"mode"`
	Seed       uint64           `json:"seed"`
	Runs       int64            `json:"runs"`
	Stats      map[string]int64 `json:"stats"`
	Violations []*Viol          `json:"violations"`
	Notes      []string         `json:"notes"`
	Samples    []any            `json:"samples"`
	Distinct   int64            `json:"distinct"`
	Infra      string           `json:"infra,omitempty"`
	vidx       map[string]*Viol
	distinct   map[uint64]struct{}
}

func newResult(mode string, seed uint64) *Result {
	return &Result{Mode: mode, Seed: seed, Stats: map[string]int64{}, vidx: map[string]*Viol{}, distinct: map[uint64]struct{}{}}
}

func sigKey(sig map[string]string) string { return core.Signature(sig).String() }

// violation registers a violation; the first of each signature keeps its
// replay, the others are counted.
func (r *Result) violation(sig map[string]string, detail string, replay func() any) {
	k := sigKey(sig)
	if v := r.vidx[k]; v != nil {
		v.Count++
		return
	}
	v := &Viol{Sig: sig, Detail: detail, Count: 1}
	if replay != nil {
		v.Replay = replay()
	}
	r.vidx[k] = v
	r.Violations = append(r.Violations, v)
}

func (r *Result) note(format string, a ...any) {
	if len(r.Notes) < 40 {
		r.Notes = append(r.Notes, fmt.Sprintf(format, a...))
	}
}

func (r *Result) sample(s any) {
	if len(r.Samples) < 6 {
		r.Samples = append(r.Samples, s)
	}
}

func (r *Result) markDistinct(h uint64) {
	r.distinct[h] = struct{}{}
}

func hash64(parts ...any) uint64 {
	h := uint64(1469598103934665603)
	s := fmt.Sprint(parts...)
	for i := 0; i < len(s); i++ {
		h ^= uint64(s[i])
		h *= 1099511628211
	}
	return h
}

func (r *Result) write(path string) {
	r.Distinct = int64(len(r.distinct))
	b, _ := json.MarshalIndent(r, "", " ")
	if path == "" || path == "-" {
		os.Stdout.Write(b)
		return
	}
	if err := os.WriteFile(path, b, 0o644); err != nil {
		fmt.Fprintln(os.Stderr, "runsim: cannot write result:", err)
		os.Exit(2)
	}
}

func loadWorlds(path string) ([]*World, error) {
	data, err := os.ReadFile(path)
	if err != nil {
		return nil, err
	}
	var entries []*SpecEntry
	if err := json.Unmarshal(data, &entries); err != nil {
		return nil, err
	}
	var ws []*World
	for _, e := range entries {
		p := hrt.Lookup(e.Pkg)
		if p == nil {
			return nil, fmt.Errorf("package %s is not linked", e.Pkg)
		}
		w := &World{E: e, P: p}
		w.GE = earley.FromSpec(e.Spec)
		w.G0 = w.GE.WithoutError()
		w.T2G = map[int]int{}
		w.G2T = make([]int, len(w.GE.Terms))
		for i, name := range w.GE.Terms {
			tt, ok := p.Tokens[name]
			if !ok {
				return nil, fmt.Errorf("package %s: token %s has no constant", e.Pkg, name)
			}
			w.G2T[i] = tt
			if name != "ERROR" {
				w.T2G[tt] = i
			}
		}
		w.NProds = len(w.GE.Prods)
		w.ErrCtx = map[int]bool{}
		for _, pr := range w.GE.Prods {
			for i, s := range pr.RHS {
				if s.T && s.ID == w.GE.ErrorT && i > 0 && pr.RHS[i-1].T {
					w.ErrCtx[pr.RHS[i-1].ID] = true
				}
			}
		}
		ws = append(ws, w)
	}
	sort.Slice(ws, func(i, j int) bool { return ws[i].E.Pkg < ws[j].E.Pkg })
	return ws, nil
}

func main() {
	mode := flag.String("mode", "", "c09 | c11 | c18 | selfcheck")
	specs := flag.String("specs", "", "specs.json")
	out := flag.String("out", "-", "result file")
	seed := flag.Uint64("seed", 1, "seed")
	runs := flag.Int("runs", 1000, "runs per grammar")
	shard := flag.Int("shard", 0, "shard index")
	nshard := flag.Int("nshard", 1, "number of shards")
	replay := flag.String("replay", "", "replay file (run section)")
	free := flag.Bool("free", false, "c18: free-running goroutines (race-detector configuration)")
	flag.Parse()
	hrt.StartMemWatchdog(10 << 30)
	ws, err := loadWorlds(*specs)
	if err != nil {
		fmt.Fprintln(os.Stderr, "runsim:", err)
		os.Exit(2)
	}
	res := newResult(*mode, *seed)
	defer func() {
		if r := recover(); r != nil {
			res.Infra = fmt.Sprint("harness panic: ", r)
			res.write(*out)
			panic(r)
		}
	}()
	switch *mode {
	case "c09":
		if *replay != "" {
			replayC09(ws, *replay, res)
		} else {
			runC09(ws, *seed, *runs, *shard, *nshard, res)
		}
	case "c11":
		if *replay != "" {
			replayC11(ws, *replay, res)
		} else {
			runC11(ws, *seed, *runs, *shard, *nshard, res)
		}
	case "c18":
		if *replay != "" {
			replayC18(ws, *replay, res, *free)
		} else {
			runC18(ws, *seed, *runs, *shard, *nshard, *free, res)
		}
	default:
		fmt.Fprintln(os.Stderr, "runsim: unknown mode")
		os.Exit(2)
	}
	res.write(*out)
}
