package stagea

import (
	"bytes"
	"fmt"
	"os"
	"path/filepath"
	"sort"
	"strings"
	"sync"
	"time"

	"verifsim/core"
)

// fixpointDirs finds every directory of the tree that holds a grammar and
// checked-in generated files (internal/parser and the bundled examples today).
func fixpointDirs(root string) ([]string, error) {
	var dirs []string
	err := filepath.WalkDir(root, func(path string, d os.DirEntry, err error) error {
		if err != nil {
			return err
		}
		if !d.IsDir() {
			return nil
		}
		rel, _ := filepath.Rel(root, path)
		if rel == ".git" || strings.HasPrefix(rel, "internal/zzverif") || rel == "docs" {
			return filepath.SkipDir
		}
		lox, _ := filepath.Glob(filepath.Join(path, "*.lox"))
		if len(lox) == 0 {
			return nil
		}
		for _, g := range GenFiles {
			if _, err := os.Stat(filepath.Join(path, g)); err == nil {
				dirs = append(dirs, rel)
				break
			}
		}
		return nil
	})
	sort.Strings(dirs)
	return dirs, err
}

func firstDiff(a, b []byte) string {
	n := len(a)
	if len(b) < n {
		n = len(b)
	}
	i := 0
	for i < n && a[i] == b[i] {
		i++
	}
	if i == n && len(a) == len(b) {
		return "identical"
	}
	line := 1 + bytes.Count(a[:i], []byte("\n"))
	ctx := func(x []byte) string {
		s := i - 20
		if s < 0 {
			s = 0
		}
		e := i + 30
		if e > len(x) {
			e = len(x)
		}
		return fmt.Sprintf("%q", x[s:e])
	}
	return fmt.Sprintf("first difference at byte %d (line %d): checked-in %s vs regenerated %s (lengths %d vs %d)", i, line, ctx(a), ctx(b), len(a), len(b))
}

type c14Case struct {
	Dir     string `json:"dir"`
	History string `json:"history"`
	Binary  string `json:"binary"`
	Map     string `json:"map,omitempty"`
	Cwd     string `json:"cwd"`
	Exit    int    `json:"exit"`
	Equal   bool   `json:"byte_identical"`
}

func CheckC14(tier string, seed uint64, rep *core.Reporter) (*core.Evidence, error) {
	start := time.Now()
	t, err := NewTree("C14", true)
	if err != nil {
		return nil, err
	}
	defer t.Close()
	dirs, err := fixpointDirs(t.Plain)
	if err != nil {
		return nil, Infra("%v", err)
	}
	if len(dirs) == 0 {
		return nil, Infra("no directory with a grammar and checked-in generated files found")
	}
	rng := core.NewRand(core.Derive(seed, "c14", 0))

	// The checked-in bytes, read before anything is regenerated.
	orig := map[string]map[string][]byte{}
	for _, d := range dirs {
		orig[d] = map[string][]byte{}
		for _, g := range GenFiles {
			if b, err := os.ReadFile(filepath.Join(t.Plain, d, g)); err == nil {
				orig[d][g] = b
			}
		}
	}
	restore := func(d string) {
		for _, g := range GenFiles {
			p := filepath.Join(t.Plain, d, g)
			if b, ok := orig[d][g]; ok {
				os.WriteFile(p, b, 0o644)
			} else {
				os.Remove(p)
			}
		}
	}

	var mu sync.Mutex
	var cases []c14Case
	distinct := map[string]bool{}
	generations := 0
	p1sites := map[string]bool{}
	var infraErr error

	compare := func(d, history, binary, mapDesc, cwd string, res *GenResult) {
		mu.Lock()
		defer mu.Unlock()
		generations++
		for _, s := range res.P1Sites() {
			p1sites[s] = true
		}
		c := c14Case{Dir: d, History: history, Binary: binary, Map: mapDesc, Cwd: cwd, Exit: res.Exit, Equal: true}
		replay := map[string]any{"dir": d, "history": history, "binary": binary, "map": mapDesc, "cwd": cwd}
		if res.TimedOut {
			if infraErr == nil {
				infraErr = Infra("wall-clock watchdog expired while regenerating %s (not a verdict about lox)", d)
			}
			return
		}
		if res.Exit != 0 {
			c.Equal = false
			rep.Report(core.Signature{"class": "regeneration-failed", "dir": d},
				fmt.Sprintf("history %s (%s, map %s, cwd %s): exit %d\nstderr: %s", history, binary, mapDesc, cwd, res.Exit, tail(res.Stderr, 800)), replay)
		} else {
			for _, g := range GenFiles {
				want, ok := orig[d][g]
				got := res.Files[g]
				if !ok {
					c.Equal = false
					rep.Report(core.Signature{"class": "checked-in-missing", "dir": d, "file": g}, "generated file is not checked in", replay)
					continue
				}
				if !bytes.Equal(want, got) {
					c.Equal = false
					rep.Report(core.Signature{"class": "fixpoint-diff", "dir": d, "file": g},
						fmt.Sprintf("history %s (%s, map %s, cwd %s)\n%s", history, binary, mapDesc, cwd, firstDiff(want, got)), replay)
				}
			}
		}
		if c.Equal {
			distinct[d+"|"+history+"|"+binary+"|"+mapDesc+"|"+cwd] = true
		}
		cases = append(cases, c)
	}

	cwdModes := []string{"dot", "rel", "relslash", "abs", "absslash", "symlink", "symlinkrel", "parentref", "fromsub"}
	nSim := 2
	if tier == "thorough" {
		nSim = 16
	}
	type simCfg struct {
		mode string
		seed uint64
		cwd  string
	}
	perDir := map[string][]simCfg{}
	perDirCwd := map[string][3]string{}
	for _, d := range dirs {
		var cfgs []simCfg
		for i := 0; i < nSim; i++ {
			mode := []string{"desc", "shuffle", "rotate", "shuffle"}[i%4]
			cfgs = append(cfgs, simCfg{mode, rng.Uint64() >> 1, cwdModes[rng.Intn(len(cwdModes))]})
		}
		perDir[d] = cfgs
		perDirCwd[d] = [3]string{cwdModes[rng.Intn(len(cwdModes))], cwdModes[rng.Intn(len(cwdModes))], cwdModes[rng.Intn(len(cwdModes))]}
	}

	var wg sync.WaitGroup
	sem := make(chan struct{}, 4)
	for di, d := range dirs {
		wg.Add(1)
		go func(di int, d string) {
			defer wg.Done()
			sem <- struct{}{}
			defer func() { <-sem }()
			abs := filepath.Join(t.Plain, d)
			fail := func(err error) {
				mu.Lock()
				if infraErr == nil {
					infraErr = err
				}
				mu.Unlock()
			}
			cw := perDirCwd[d]
			// H1 warm: over the directory as checked in.
			res, err := t.Generate(Invocation{Bin: t.Lox, Dir: abs, CwdMode: cw[0]}, "")
			if err != nil {
				fail(err)
				return
			}
			compare(d, "warm", "lox", "runtime", cw[0], res)
			// H2 cold: generated files deleted first.
			for _, g := range GenFiles {
				os.Remove(filepath.Join(abs, g))
			}
			res, err = t.Generate(Invocation{Bin: t.Lox, Dir: abs, CwdMode: cw[1]}, "")
			if err != nil {
				fail(err)
				return
			}
			compare(d, "cold", "lox", "runtime", cw[1], res)
			// H3 stale: generated files of another directory planted first.
			other := dirs[(di+1)%len(dirs)]
			for _, g := range GenFiles {
				if b, ok := orig[other][g]; ok {
					os.WriteFile(filepath.Join(abs, g), b, 0o644)
				}
			}
			res, err = t.Generate(Invocation{Bin: t.Lox, Dir: abs, CwdMode: cw[2]}, "")
			if err != nil {
				fail(err)
				return
			}
			compare(d, "stale-from-"+other, "lox", "runtime", cw[2], res)
			restore(d)
			// H4: instrumented generator, simulator-chosen map orders.
			var writeCalls []int
			for i, c := range perDir[d] {
				op := &OpDesc{Run: "c14", Op: i, Map: MapCfg{Mode: c.mode, Seed: c.seed}, Ticks: TickBudget}
				res, err := t.Generate(Invocation{Bin: t.LoxSim, Dir: abs, CwdMode: c.cwd, Op: op}, fmt.Sprintf("c14-%d-%d", di, i))
				if err != nil {
					fail(err)
					return
				}
				if res.Exit == 97 {
					rep.Report(core.Signature{"class": "tick-budget", "dir": d}, "generation did not terminate within the tick budget", map[string]any{"dir": d, "map": c})
					continue
				}
				if writeCalls == nil {
					for _, e := range res.Calls() {
						if e.Fn == "os.WriteFile" {
							writeCalls = append(writeCalls, e.N)
						}
					}
				}
				compare(d, "sim", "lox-sim", fmt.Sprintf("%s/%d", c.mode, c.seed), c.cwd, res)
				restore(d)
			}
			// H8: a regeneration that fails (go list error) or is told to
			// terminate (SIGTERM) between two writes, on the unchanged tree: the
			// files it did write are the checked-in bytes, the others must be
			// untouched - a failed or interrupted attempt must not leave the
			// directory in a state that no longer matches the generator.
			for k, flt := range []Fault{{Fn: "packages.Load", Kind: "error"}, {Fn: "packages.Load", Kind: "signal"}, {Fn: "os.ReadDir", Kind: "signal"}} {
				op := &OpDesc{Run: "c14", Map: MapCfg{Mode: "asc"}, Ticks: TickBudget, Faults: []Fault{flt}}
				res, err := t.Generate(Invocation{Bin: t.LoxSim, Dir: abs, CwdMode: "dot", Op: op}, fmt.Sprintf("c14-%d-h8-%d", di, k))
				if err != nil {
					fail(err)
					return
				}
				mu.Lock()
				generations++
				same := true
				for _, g := range GenFiles {
					if want, ok := orig[d][g]; ok {
						got, present := res.Files[g]
						if !present || !bytes.Equal(want, got) {
							same = false
							what := "missing"
							if present {
								what = firstDiff(want, got)
							}
							rep.Report(core.Signature{"class": "failed-run-damaged-files", "dir": d, "file": g, "fault": flt.Kind},
								fmt.Sprintf("after a regeneration attempt with fault %s at %s (exit %d) the checked-in %s is %s", flt.Kind, flt.Fn, res.Exit, g, what),
								map[string]any{"dir": d, "history": "failed-run", "fault": flt})
						}
					}
				}
				cases = append(cases, c14Case{Dir: d, History: "failed-run:" + flt.Kind + "@" + flt.Fn, Binary: "lox-sim", Map: "asc", Cwd: "dot", Exit: res.Exit, Equal: same})
				if same {
					distinct[d+"|failed-run|"+flt.Kind+"|"+flt.Fn] = true
				}
				mu.Unlock()
				restore(d)
			}
			if tier == "thorough" {
				// H5: a generation killed in the middle of each write, then a
				// plain regeneration over what it left behind.
				for k, torn := range []string{"trunc0", "prefix", "prefix"} {
					for wcall := 0; wcall < len(writeCalls); wcall++ {
						op := &OpDesc{Run: "c14", Map: MapCfg{Mode: "asc"}, Ticks: TickBudget,
							Faults: []Fault{{Fn: "os.WriteFile", Kind: "crash", Torn: torn, Pct: 20 + 30*k}}}
						// crash at the (wcall+1)-th WriteFile: resolve its call number from a clean run's numbering
						op.Faults[0].Fn = ""
						op.Faults[0].Call = writeCalls[wcall]
						if _, err := t.Generate(Invocation{Bin: t.LoxSim, Dir: abs, CwdMode: "dot", Op: op}, fmt.Sprintf("c14-%d-k%d-%d", di, k, wcall)); err != nil {
							fail(err)
							return
						}
						res, err := t.Generate(Invocation{Bin: t.Lox, Dir: abs, CwdMode: "dot"}, "")
						if err != nil {
							fail(err)
							return
						}
						compare(d, fmt.Sprintf("after-crash-write%d-%s", wcall+1, torn), "lox", "runtime", "dot", res)
						restore(d)
					}
				}
			}
		}(di, d)
	}
	wg.Wait()
	if infraErr != nil {
		return nil, infraErr
	}

	// H6: second bootstrap generation. Regenerate every directory in place
	// with gen-1, rebuild lox from that tree, regenerate again.
	boot := "skipped"
	{
		for _, d := range dirs {
			if _, err := t.Generate(Invocation{Bin: t.Lox, Dir: filepath.Join(t.Plain, d), CwdMode: "dot"}, ""); err != nil {
				return nil, err
			}
		}
		lox2 := filepath.Join(t.Base, "bin", "lox2")
		if out, err := run(t.Plain, GoEnv(), "go", "build", "-o", lox2, "./cmd/lox"); err != nil {
			rep.Report(core.Signature{"class": "regenerated-front-end-does-not-build"}, string(out), nil)
			boot = "gen-1 front-end does not build"
		} else {
			boot = "ok"
			for _, d := range dirs {
				res, err := t.Generate(Invocation{Bin: lox2, Dir: filepath.Join(t.Plain, d), CwdMode: "dot"}, "")
				if err != nil {
					return nil, err
				}
				compare(d, "bootstrap-gen2", "lox(gen1 front-end)", "runtime", "dot", res)
			}
		}
		// H7: the regenerated packages still build.
		if out, err := run(t.Plain, GoEnv(), "go", "build", "./..."); err != nil {
			rep.Report(core.Signature{"class": "regenerated-packages-do-not-build"}, tail(out, 1500), nil)
		}
		for _, d := range dirs {
			restore(d)
		}
	}

	sort.Slice(cases, func(i, j int) bool {
		a, b := cases[i], cases[j]
		if a.Dir != b.Dir {
			return a.Dir < b.Dir
		}
		if a.History != b.History {
			return a.History < b.History
		}
		return a.Map < b.Map
	})
	nSamples := len(cases)
	if nSamples > 12 {
		nSamples = 12
	}
	sites := make([]string, 0, len(p1sites))
	for s := range p1sites {
		sites = append(sites, s)
	}
	sort.Strings(sites)
	wall := time.Since(start).Seconds()
	ev := &core.Evidence{
		PropertyID: "C14", Tier: tier, Seed: int64(seed), Level: "exploration",
		Coverage: map[string]any{
			"evaluations":         generations,
			"distinct_nontrivial": len(distinct),
			"rule": "one evaluation = one regeneration of one checked-in directory (one OS process) compared byte for byte with the three checked-in files; " +
				"distinct = distinct (directory, history, binary, map mode/seed, cwd spelling); non-trivial = the generation exited 0 and all three files were compared",
			"samples":                    cases[:nSamples],
			"exhaustive":                 false,
			"directories":                dirs,
			"histories":                  []string{"warm", "cold", "stale-from-other-grammar", "sim map orders", "failed or interrupted attempt leaves the checked-in bytes", "after-crash (thorough)", "bootstrap-gen2", "go build ./..."},
			"second_bootstrap":           boot,
			"p1_sites_visited":           sites,
			"p1_sites_total":             len(t.Instr.P1Sites),
			"unwrapped_os_calls":         t.Instr.Unwrapped,
			"go_statements_in_lox":       t.Instr.GoStmts,
			"generations_per_hour":       int(float64(generations) / wall * 3600),
			"simulated_time":             "none: lox reads no clock; logical steps only",
			"components_real":            []string{"all lox packages", "jet", "go/format", "go/types", "x/tools/go/packages", "go list subprocess", "tmpfs file system"},
			"components_simulated":       []string{"map iteration order (P1) in lox-sim runs", "cwd and spelling of the directory argument", "directory history (cold/stale/torn)"},
			"components_stubbed":         []string{},
			"known_findings_hit":         rep.KnownHits,
			"fault_kinds_fired":          map[string]int{"crash-torn-write": countHist(cases, "after-crash")},
			"distinct_interleavings_def": "distinct map-order configurations (mode, seed) per directory",
		},
		Assumptions: []string{
			"the scratch copy under /dev/shm is a faithful copy of /repo's working tree (rsync -a, .git excluded)",
			"the Go toolchain and module cache behave identically for the copy and for /repo",
		},
		WallS:      wall,
		Violations: len(rep.Violations),
	}
	return ev, nil
}

func countHist(cs []c14Case, prefix string) int {
	n := 0
	for _, c := range cs {
		if strings.HasPrefix(c.History, prefix) {
			n++
		}
	}
	return n
}

func tail(b []byte, n int) string {
	if len(b) > n {
		return "…" + string(b[len(b)-n:])
	}
	return string(b)
}
