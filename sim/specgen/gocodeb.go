package specgen

import (
	"fmt"
	"strings"
)

var stageBTypes = &TypeNames{Token: "Token", Error: "Error", Node: []string{"*hrt.Node", "hrt.NodeA", "hrt.NodeB"}}

// GoStageB prints the harness-written half of a simulated grammar package:
// Token alias, the parser struct embedding lox, one recording action method
// per rule-and-signature, optionally _onBounds, and the registration with the
// harness runtime.
// pkg is the name under which the package registers with the harness; the
// package clause is ClauseOf(pkg).
func (s *Spec) GoStageB(pkg, hrtImport string) (parserGo, registerGo string) {
	clause := ClauseOf(pkg)
	var sb strings.Builder
	fmt.Fprintf(&sb, "package %s\n\nimport %q\n\n", clause, hrtImport)
	sb.WriteString("type Token = hrt.Token\n\n")
	sb.WriteString("type P struct {\n\tlox\n\th *hrt.Recorder\n}\n\n")
	sb.WriteString("func convErrs(es []Error) []hrt.ErrLeaf {\n\tout := make([]hrt.ErrLeaf, len(es))\n\tfor i, e := range es {\n\t\tout[i] = hrt.ErrLeaf{Tok: e.Token, Expected: e.Expected}\n\t}\n\treturn out\n}\n\nvar _ = convErrs\n\n")
	for _, m := range s.Methods(stageBTypes) {
		params := make([]string, len(m.Params))
		args := make([]string, len(m.Params))
		for j, t := range m.Params {
			params[j] = fmt.Sprintf("a%d %s", j, t)
			switch t {
			case "Error":
				args[j] = fmt.Sprintf("hrt.ErrLeaf{Tok: a%d.Token, Expected: a%d.Expected}", j, j)
			case "[]Error":
				args[j] = fmt.Sprintf("convErrs(a%d)", j)
			default:
				args[j] = fmt.Sprintf("a%d", j)
			}
			if m.ListSeps[j] != "" {
				args[j] = fmt.Sprintf("hrt.List{Sep: %s, Items: %s}", m.ListSeps[j], args[j])
			}
		}
		call := fmt.Sprintf("p.h.Act(%q, %q", m.Rule, m.Name)
		if len(args) > 0 {
			call += ", " + strings.Join(args, ", ")
		}
		call += ")"
		var ret string
		switch m.Ret {
		case "*hrt.Node":
			ret = call
		case "hrt.NodeA":
			ret = "hrt.NodeA{N: " + call + "}"
		default:
			ret = "hrt.NodeB{N: " + call + "}"
		}
		fmt.Fprintf(&sb, "func (p *P) %s(%s) %s {\n\treturn %s\n}\n\n", m.Name, strings.Join(params, ", "), m.Ret, ret)
	}
	if s.OnBounds {
		sb.WriteString("func (p *P) _onBounds(r any, begin, end Token) { p.h.OnBounds(r, begin, end) }\n\n")
	}
	parserGo = sb.String()
	sb.Reset()
	// register.go is added after lox ran and pass P4 appended __verifGlobals.
	fmt.Fprintf(&sb, "package %s\n\nimport %q\n\n", clause, hrtImport)
	sb.WriteString("func init() {\n\thrt.Register(&hrt.Pkg{\n")
	fmt.Fprintf(&sb, "\t\tName: %q,\n", pkg)
	sb.WriteString("\t\tParse: func(h *hrt.Recorder, lex hrt.Lexer) bool {\n\t\t\tp := &P{h: h}\n\t\t\treturn p.parse(lex)\n\t\t},\n")
	sb.WriteString("\t\tNewSM:   func() hrt.StateMachine { return new(_LexerStateMachine) },\n")
	sb.WriteString("\t\tGlobals: __verifGlobals,\n")
	sb.WriteString("\t\tTokens: map[string]int{\n\t\t\t\"EOF\": EOF, \"ERROR\": ERROR,\n")
	for _, n := range s.TokenNames() {
		fmt.Fprintf(&sb, "\t\t\t%q: %s,\n", n, n)
	}
	sb.WriteString("\t\t},\n\t\tTokenToString: _TokenToString,\n")
	fmt.Fprintf(&sb, "\t\tOnBounds: %v,\n", s.OnBounds)
	sb.WriteString("\t})\n}\n")
	return parserGo, sb.String()
}

// SharedClause: every second simulated grammar package is called `parser` (in
// its own directory <id>/parser): several packages with the same name and
// different import paths linked into one program, as real projects have.
func SharedClause(pkg string) bool {
	n := 0
	for _, c := range pkg {
		if c >= '0' && c <= '9' {
			n = n*10 + int(c-'0')
		}
	}
	return n%2 == 1
}

func ClauseOf(pkg string) string {
	if SharedClause(pkg) {
		return "parser"
	}
	return pkg
}

// DirOf is the directory of the package below the grammar root.
func DirOf(pkg string) string {
	if SharedClause(pkg) {
		return pkg + "/parser"
	}
	return pkg
}
