package specgen

import (
	"fmt"

	"verifsim/core"
)

// Options select which half of the specification is made interesting (swarm
// style: the other half is kept simple so that more specs are accepted).
type Options struct {
	Wide bool // a grammar with one LR state that has 36 or more outgoing symbols
	RichLexer  bool // modes, fragments, nullable rules, non-greedy
	RichParser bool // random grammar families with @error placements
	RealLexable bool // tokens restricted so that a sentence can be rendered as text and re-lexed (C09 configuration b)
	Family string // "" = seeded choice; "pending-errors" (parser), "nullable-mode-cycle" (lexer idiom added to a rich lexer)
}

type gen struct {
	wide bool
	family string
	r    *core.Rand
	s    *Spec
	toks []string // names of tokens usable in the parser section
	nRule int
}

var litPool = []string{"a", "b", "c", "d", "x", "y", "+", "-", "*", "/", "(", ")", "{", "}", "[", "]", ";", ",", ":", "=", "<", ">", "!", "if", "do", "fn", "let", "end", "==", "->", "é", "世",
	"e", "f", "g", "h", "k", "m", "n", "p", "q", "r", "&", "|", "^", "%", "~", "?", "#", "@@", "<=", ">="}

func (g *gen) pick(n int) int { return g.r.Intn(n) }

func (g *gen) chance(p int) bool { return g.r.Intn(100) < p }

// Generate builds one specification from the seed.
func Generate(seed uint64, opt Options) *Spec {
	g := &gen{r: core.NewRand(seed), s: &Spec{}, wide: opt.Wide, family: opt.Family}
	g.s.Pkg = []string{"main", "gram", "zparser", "main"}[g.pick(4)]
	g.s.OnBounds = g.chance(40)
	g.s.TwoFiles = g.chance(40)
	g.s.SplitLex = g.chance(60)
	if opt.RichLexer {
		g.richLexer()
	} else {
		g.simpleLexer(opt.RealLexable)
	}
	if opt.RichParser {
		g.richParser()
	} else {
		g.trivialParser()
	}
	return g.s
}

// ---------------------------------------------------------------------------
// Lexers.

func (g *gen) simpleLexer(lexable bool) {
	n := 3 + g.pick(6)
	if g.chance(15) {
		// many terminals: two-digit terminal and state numbers in the tables
		n = 12 + g.pick(len(litPool)-12)
	}
	if g.wide {
		n = 40 + g.pick(len(litPool)-40)
	}
	if g.family != "" && n < 8 {
		n = 8 // the directed families name up to seven distinct tokens
	}
	perm := g.perm(len(litPool))
	def := &LexMode{}
	for i := 0; i < n; i++ {
		name := fmt.Sprintf("T%d", i)
		def.Rules = append(def.Rules, &LexRule{Kind: RTok, Name: name, Expr: &LexExpr{Op: LLit, Lit: litPool[perm[i]]}})
		g.toks = append(g.toks, name)
	}
	if g.chance(50) {
		def.Rules = append(def.Rules, &LexRule{Kind: RTok, Name: "NUM", Expr: &LexExpr{Op: LClass, Ranges: [][2]rune{{'0', '9'}}, Card: CPlus}})
		g.toks = append(g.toks, "NUM")
	}
	if !lexable && g.chance(20) {
		// declared only: lox does not let parser terms reference external names
		def.Rules = append(def.Rules, &LexRule{Kind: RExternal, Names: []string{"EXT", "EXT2"}})
	}
	def.Rules = append(def.Rules, &LexRule{Kind: RFrag, Expr: &LexExpr{Op: LClass, Ranges: [][2]rune{{' ', ' '}, {'\t', '\t'}, {'\n', '\n'}, {'\r', '\r'}}, Card: CPlus}, Actions: []LexAction{{Kind: ADiscard}}})
	g.s.Modes = []*LexMode{def}
	g.s.LexFamily = "simple"
	// The grammar families pick tokens by position (opener, closer, separator
	// ...): shuffle which name plays which role, so that the alphabetical order
	// of symbol names is unrelated to their roles.
	for i := len(g.toks) - 1; i > 0; i-- {
		j := g.pick(i + 1)
		g.toks[i], g.toks[j] = g.toks[j], g.toks[i]
	}
}

func (g *gen) perm(n int) []int {
	p := make([]int, n)
	for i := range p {
		p[i] = i
	}
	for i := n - 1; i > 0; i-- {
		j := g.pick(i + 1)
		p[i], p[j] = p[j], p[i]
	}
	return p
}

var lexAlphabet = []rune{'a', 'b', 'c', 'x', 'y', '0', '1', '<', '>', '"', '{', '}', '(', ')', '+', '-', '#', 'é', '世', '😀'}

func (g *gen) lexAtom(macros []string) *LexExpr {
	switch g.pick(9) {
	case 0, 1, 2:
		n := 1 + g.pick(2)
		s := ""
		for i := 0; i < n; i++ {
			s += string(lexAlphabet[g.pick(len(lexAlphabet))])
		}
		return &LexExpr{Op: LLit, Lit: s}
	case 3, 4:
		return &LexExpr{Op: LClass, Ranges: g.ranges()}
	case 5:
		return &LexExpr{Op: LClass, Neg: true, Ranges: append(g.ranges(), [2]rune{'\n', '\n'})}
	case 6:
		if len(macros) > 0 {
			return &LexExpr{Op: LRef, Ref: macros[g.pick(len(macros))]}
		}
		return &LexExpr{Op: LClass, Ranges: [][2]rune{{'a', 'c'}}}
	case 7:
		if g.chance(30) {
			return &LexExpr{Op: LClass, Ranges: [][2]rune{{'a', 'z'}}, Minus: [][2]rune{{'b', 'b'}, {'x', 'y'}}}
		}
		return &LexExpr{Op: LAny}
	default:
		return &LexExpr{Op: LClass, Ranges: [][2]rune{{'0', '9'}}}
	}
}

func (g *gen) ranges() [][2]rune {
	pool := [][2]rune{{'a', 'c'}, {'x', 'y'}, {'0', '1'}, {'a', 'z'}, {'0', '9'}, {'<', '<'}, {'>', '>'}, {'"', '"'}, {'+', '-'}, {'é', 'é'}, {0x4e00, 0x4e16}, {0x1F600, 0x1F600}, {' ', ' '}, {'#', '#'}, {'{', '}'}}
	n := 1 + g.pick(3)
	var rs [][2]rune
	for _, i := range g.perm(len(pool))[:n] {
		rs = append(rs, pool[i])
	}
	return rs
}

// lexExpr builds a random lexical expression. nullable<100 bounds the chance
// of a cardinality that lets the whole expression match the empty string.
func (g *gen) lexExpr(depth int, macros []string, allowNullable bool) *LexExpr {
	mk := func() *LexExpr {
		a := g.lexAtom(macros)
		switch g.pick(12) {
		case 0:
			a.Card = CPlus
		case 1:
			if a.Op != LLit || len([]rune(a.Lit)) == 1 {
				a.Card = CStar
			}
		case 2:
			a.Card = COpt
		case 3:
			if g.chance(50) && a.Op != LLit {
				a.Card = []int{CStarNG, CPlusNG}[g.pick(2)]
			}
		}
		return a
	}
	var e *LexExpr
	switch {
	case depth > 0 && g.chance(25):
		e = &LexExpr{Op: LAlt, Kids: []*LexExpr{g.lexExpr(depth-1, macros, false), g.lexExpr(depth-1, macros, false)}}
		if g.chance(30) {
			e.Card = []int{CPlus, CStar, COpt}[g.pick(3)]
		}
	case g.chance(55):
		n := 2 + g.pick(2)
		e = &LexExpr{Op: LSeq}
		for i := 0; i < n; i++ {
			e.Kids = append(e.Kids, mk())
		}
	default:
		e = mk()
	}
	if !allowNullable && Nullable(e, nil) {
		// make it non-nullable by prefixing a mandatory atom
		lead := g.lexAtom(nil)
		if lead.Op == LRef {
			lead = &LexExpr{Op: LLit, Lit: "a"}
		}
		e = &LexExpr{Op: LSeq, Kids: []*LexExpr{lead, e}}
	}
	return e
}

// Nullable reports whether the expression can match the empty string.
func Nullable(e *LexExpr, macros map[string]*LexExpr) bool {
	if e.Card == COpt || e.Card == CStar || e.Card == CStarNG {
		return true
	}
	switch e.Op {
	case LLit:
		return e.Lit == ""
	case LSeq:
		for _, k := range e.Kids {
			if !Nullable(k, macros) {
				return false
			}
		}
		return true
	case LAlt:
		for _, k := range e.Kids {
			if Nullable(k, macros) {
				return true
			}
		}
		return false
	case LRef:
		if m, ok := macros[e.Ref]; ok {
			return Nullable(m, macros)
		}
	}
	return false
}

func (g *gen) richLexer() {
	s := g.s
	def := &LexMode{}
	var macros []string
	if g.chance(50) {
		def.Rules = append(def.Rules, &LexRule{Kind: RMacro, Name: "DIG", Expr: &LexExpr{Op: LClass, Ranges: [][2]rune{{'0', '9'}}}})
		macros = append(macros, "DIG")
		if g.chance(40) {
			def.Rules = append(def.Rules, &LexRule{Kind: RMacro, Name: "WORD", Expr: &LexExpr{Op: LSeq, Kids: []*LexExpr{{Op: LClass, Ranges: [][2]rune{{'a', 'c'}}}, {Op: LRef, Ref: "DIG", Card: CStar}}}})
			macros = append(macros, "WORD")
		}
	}
	nModes := g.pick(3) // extra modes
	modeNames := []string{"M1", "M2"}[:nModes]
	modes := []*LexMode{def}
	for _, n := range modeNames {
		modes = append(modes, &LexMode{Name: n})
	}
	tokN := 0
	newTok := func() string { tokN++; return fmt.Sprintf("K%d", tokN) }
	nullableBudget := 0
	if g.chance(35) {
		nullableBudget = 1 + g.pick(2)
	}
	var allToks []string
	loopMode := map[int]bool{}
	for mi, m := range modes {
		n := 2 + g.pick(4)
		if g.chance(15) {
			// "loop mode": every rule of the mode shares one loop, so that the
			// DFA state reached after a full iteration is equivalent to (and
			// merged with) the start state
			loop := []string{"ab", "0", "xy", "é"}[g.pick(4)]
			tail := []string{"c", ";", "\n", ">"}[g.pick(4)]
			r1 := &LexRule{Kind: RTok, Name: newTok(), Expr: &LexExpr{Op: LSeq, Kids: []*LexExpr{
				{Op: LSeq, Kids: []*LexExpr{{Op: LLit, Lit: loop}}, Card: CStar}, {Op: LLit, Lit: tail}}}}
			m.Rules = append(m.Rules, r1)
			allToks = append(allToks, r1.Name)
			if g.chance(40) {
				r2 := &LexRule{Kind: RTok, Name: newTok(), Expr: &LexExpr{Op: LSeq, Kids: []*LexExpr{{Op: LLit, Lit: loop}}, Card: CStar}}
				m.Rules = append(m.Rules, r2)
				allToks = append(allToks, r2.Name)
			}
			if mi > 0 && g.chance(50) {
				r1.Actions = append(r1.Actions, LexAction{Kind: APop})
			}
			loopMode[mi] = true
			continue
		}
		for i := 0; i < n; i++ {
			allowNull := nullableBudget > 0 && g.chance(30)
			switch g.pick(10) {
			case 0, 1, 2, 3: // token
				r := &LexRule{Kind: RTok, Name: newTok(), Expr: g.lexExpr(1, macros, allowNull)}
				if Nullable(r.Expr, nil) {
					nullableBudget--
				}
				if nModes > 0 && g.chance(30) {
					if mi == 0 || g.chance(40) {
						arg := modeNames[g.pick(nModes)]
						if g.chance(15) {
							arg = ""
						}
						r.Actions = append(r.Actions, LexAction{Kind: APush, Arg: arg})
					} else {
						r.Actions = append(r.Actions, LexAction{Kind: APop})
					}
				}
				m.Rules = append(m.Rules, r)
				allToks = append(allToks, r.Name)
			case 4: // non-greedy bracket
				open := []string{"<", "/*", "\"", "{"}[g.pick(4)]
				cls := map[string]string{"<": ">", "/*": "*/", "\"": "\"", "{": "}"}[open]
				card := CStarNG
				if g.chance(30) {
					card = CPlusNG
				}
				e := &LexExpr{Op: LSeq, Kids: []*LexExpr{{Op: LLit, Lit: open}, {Op: LAny, Card: card}, {Op: LLit, Lit: cls}}}
				if g.chance(50) {
					r := &LexRule{Kind: RTok, Name: newTok(), Expr: e}
					m.Rules = append(m.Rules, r)
					allToks = append(allToks, r.Name)
				} else {
					m.Rules = append(m.Rules, &LexRule{Kind: RFrag, Expr: e, Actions: []LexAction{{Kind: ADiscard}}})
				}
			case 5, 6: // discarding fragment
				m.Rules = append(m.Rules, &LexRule{Kind: RFrag, Expr: g.lexExpr(0, macros, allowNull), Actions: []LexAction{{Kind: ADiscard}}})
			case 7, 8: // accumulating fragment (sometimes nullable), perhaps switching mode
				r := &LexRule{Kind: RFrag, Expr: g.lexExpr(0, macros, allowNull || g.chance(15))}
				if nModes > 0 && g.chance(40) {
					if mi == 0 || g.chance(30) {
						r.Actions = append(r.Actions, LexAction{Kind: APush, Arg: modeNames[g.pick(nModes)]})
					} else {
						r.Actions = append(r.Actions, LexAction{Kind: APop})
					}
				}
				m.Rules = append(m.Rules, r)
			case 9: // emitting fragment
				if len(allToks) > 0 {
					r := &LexRule{Kind: RFrag, Expr: g.lexExpr(0, macros, false), Actions: []LexAction{{Kind: AEmit, Arg: allToks[g.pick(len(allToks))]}}}
					if mi > 0 && g.chance(40) {
						r.Actions = append(r.Actions, LexAction{Kind: APop})
					}
					m.Rules = append(m.Rules, r)
				}
			}
		}
	}
	// Idioms from real grammars: a string mode whose body is a nullable
	// accumulating fragment, and a comment mode whose body is a nullable
	// non-greedy fragment.
	if g.chance(35) {
		q := []string{"\"", "`", "|"}[g.pick(3)]
		name := "Str"
		// declared first so that it wins ties against catch-all rules
		def.Rules = append([]*LexRule{{Kind: RFrag, Expr: &LexExpr{Op: LLit, Lit: q}, Actions: []LexAction{{Kind: APush, Arg: name}}}}, def.Rules...)
		end := &LexRule{Kind: RTok, Name: newTok(), Expr: &LexExpr{Op: LLit, Lit: q}, Actions: []LexAction{{Kind: APop}}}
		body := &LexRule{Kind: RFrag, Expr: &LexExpr{Op: LClass, Neg: true, Ranges: [][2]rune{{rune(q[0]), rune(q[0])}, {'\\', '\\'}, {'\n', '\n'}}, Card: []int{CStar, CStar, CPlus}[g.pick(3)]}}
		esc := &LexRule{Kind: RFrag, Expr: &LexExpr{Op: LSeq, Kids: []*LexExpr{{Op: LLit, Lit: "\\"}, {Op: LAny}}}}
		modes = append(modes, &LexMode{Name: name, Rules: []*LexRule{end, esc, body}})
		allToks = append(allToks, end.Name)
		loopMode[len(modes)-1] = true
	}
	if g.chance(35) {
		name := "Cmt"
		def.Rules = append([]*LexRule{{Kind: RFrag, Expr: &LexExpr{Op: LLit, Lit: "#"}, Actions: []LexAction{{Kind: APush, Arg: name}}}}, def.Rules...)
		body := &LexRule{Kind: RFrag, Expr: &LexExpr{Op: LClass, Neg: true, Ranges: [][2]rune{{'\n', '\n'}}, Card: []int{CStarNG, CStar, CPlusNG}[g.pick(3)]}}
		end := &LexRule{Kind: RFrag, Expr: &LexExpr{Op: LLit, Lit: "\n"}, Actions: []LexAction{{Kind: ADiscard}, {Kind: APop}}}
		if g.chance(50) {
			end = &LexRule{Kind: RTok, Name: newTok(), Expr: &LexExpr{Op: LLit, Lit: "\n"}, Actions: []LexAction{{Kind: APop}}}
			allToks = append(allToks, end.Name)
		}
		modes = append(modes, &LexMode{Name: name, Rules: []*LexRule{body, end}})
		loopMode[len(modes)-1] = true
	}
	// Interpolation-style nesting: a bracket that pushes the default mode onto
	// itself and its partner that pops, so that the mode stack can grow without
	// bound.
	if g.chance(30) {
		ob, cb := "{", "}"
		if g.chance(40) {
			ob, cb = "(", ")"
		}
		o := &LexRule{Kind: RTok, Name: newTok(), Expr: &LexExpr{Op: LLit, Lit: ob}, Actions: []LexAction{{Kind: APush, Arg: ""}}}
		c := &LexRule{Kind: RTok, Name: newTok(), Expr: &LexExpr{Op: LLit, Lit: cb}, Actions: []LexAction{{Kind: APop}}}
		def.Rules = append([]*LexRule{o, c}, def.Rules...)
		allToks = append(allToks, o.Name, c.Name)
	}
	// Every extra mode gets a way out most of the time, and the default mode
	// gets a whitespace rule most of the time.
	for mi, m := range modes[1:] {
		if g.chance(75) && !loopMode[mi+1] {
			r := &LexRule{Kind: RTok, Name: newTok(), Expr: &LexExpr{Op: LLit, Lit: []string{">", ")", "}", "\""}[g.pick(4)]}, Actions: []LexAction{{Kind: APop}}}
			m.Rules = append(m.Rules, r)
			allToks = append(allToks, r.Name)
		}
	}
	if len(allToks) == 0 {
		r := &LexRule{Kind: RTok, Name: newTok(), Expr: &LexExpr{Op: LLit, Lit: "a"}}
		def.Rules = append(def.Rules, r)
		allToks = append(allToks, r.Name)
	}
	if g.chance(70) && !loopMode[0] {
		def.Rules = append(def.Rules, &LexRule{Kind: RFrag, Expr: &LexExpr{Op: LClass, Ranges: [][2]rune{{' ', ' '}, {'\n', '\n'}, {'\t', '\t'}}, Card: CPlus}, Actions: []LexAction{{Kind: ADiscard}}})
	}
	if g.family == "nullable-mode-cycle" {
		// Optional opener and optional terminator: nullable rules whose only
		// effect is a mode switch, leading into each other. Where neither
		// matches a character the lexer must still move on (or report the
		// error), not alternate between the modes for ever.
		name := "Blk"
		opener := &LexRule{Kind: RTok, Name: newTok(), Expr: &LexExpr{Op: LLit, Lit: []string{"begin", "[", "do"}[g.pick(3)], Card: COpt}, Actions: []LexAction{{Kind: APush, Arg: name}}}
		var closer *LexRule
		switch g.pick(3) {
		case 0:
			closer = &LexRule{Kind: RTok, Name: newTok(), Expr: &LexExpr{Op: LLit, Lit: ";", Card: COpt}, Actions: []LexAction{{Kind: APop}}}
		case 1:
			closer = &LexRule{Kind: RTok, Name: newTok(), Expr: &LexExpr{Op: LLit, Lit: "end", Card: COpt}, Actions: []LexAction{{Kind: APush, Arg: ""}}}
		default:
			closer = &LexRule{Kind: RFrag, Expr: &LexExpr{Op: LClass, Ranges: [][2]rune{{';', ';'}}, Card: CStar}, Actions: []LexAction{{Kind: APop}}}
		}
		word := &LexRule{Kind: RTok, Name: newTok(), Expr: &LexExpr{Op: LClass, Ranges: [][2]rune{{'a', 'c'}}, Card: CPlus}}
		def.Rules = append(def.Rules, opener)
		modes = append(modes, &LexMode{Name: name, Rules: []*LexRule{word, closer}})
		allToks = append(allToks, opener.Name, word.Name)
		if closer.Kind == RTok {
			allToks = append(allToks, closer.Name)
		}
	}
	s.Modes = modes
	s.LexFamily = "rich"
	g.toks = allToks
}

// ---------------------------------------------------------------------------
// Parsers.

func (g *gen) tok() *Term {
	n := g.toks[g.pick(len(g.toks))]
	return &Term{Kind: KTok, Name: n, Lit: g.chance(40)}
}

func (g *gen) tokN(i int) *Term {
	return &Term{Kind: KTok, Name: g.toks[i%len(g.toks)], Lit: g.chance(40)}
}

func (g *gen) trivialParser() {
	r := &Rule{Name: "top"}
	switch g.pick(3) {
	case 0:
		r.Prods = []*Prod{{Terms: []*Term{{Kind: KTok, Name: g.toks[0], Card: Star}}}}
	case 1:
		r.Prods = []*Prod{{Terms: []*Term{g.tokN(0)}}, {}}
	default:
		r.Prods = []*Prod{{Terms: []*Term{{Kind: KTok, Name: g.toks[0]}, {Kind: KTok, Name: g.toks[len(g.toks)-1], Card: Opt}}}}
	}
	g.s.Rules = []*Rule{r}
	g.s.Family = "trivial"
}

func rref(n string) *Term { return &Term{Kind: KRule, Name: n} }
func rrefc(n string, c Card) *Term { return &Term{Kind: KRule, Name: n, Card: c} }
func errT() *Term            { return &Term{Kind: KErr} }

func (g *gen) richParser() {
	fams := []func(){g.famStatements, g.famLLish, g.famExpr, g.famNullableChain, g.famRandomSmall, g.famLists, g.famLLish, g.famStatements, g.famErrorInRepetition, g.famIndirectLeftRecursion}
	if len(g.toks) >= 36 {
		fams = []func(){g.famWide, g.famChains}
	}
	if g.family == "pending-errors" {
		fams = []func(){g.famPendingErrors}
	}
	fams[g.pick(len(fams))]()
	for _, r := range g.s.Rules {
		r.Ret = g.pick(7)
	}
	if g.chance(70) && g.family != "pending-errors" {
		g.sprinkleErrors()
	}
	g.s.NormalizeLists()
}

func (g *gen) famStatements() {
	s := g.s
	s.Family = "statements"
	nt := len(g.toks)
	semi, open, cls, kw1, kw2, id := g.tokN(0), g.tokN(1), g.tokN(2), g.tokN(3%nt), g.tokN(4%nt), g.tokN(5%nt)
	stmtCard := []Card{Star, Plus, Star, StarF}[g.pick(4)]
	prog := &Rule{Name: "prog", Prods: []*Prod{{Terms: []*Term{rrefc("stmt", stmtCard)}}}}
	stmt := &Rule{Name: "stmt"}
	stmt.Prods = append(stmt.Prods, &Prod{Terms: []*Term{kw1, rref("expr"), semi}})
	if g.chance(70) {
		stmt.Prods = append(stmt.Prods, &Prod{Terms: []*Term{rref("block")}})
	}
	if g.chance(50) && nt > 4 {
		stmt.Prods = append(stmt.Prods, &Prod{Terms: []*Term{kw2, {Kind: KTok, Name: id.Name, Card: Opt}, semi}})
	}
	block := &Rule{Name: "block", Prods: []*Prod{{Terms: []*Term{open, rrefc("stmt", Star), cls}}}}
	expr := &Rule{Name: "expr"}
	switch g.pick(3) {
	case 0:
		expr.Prods = []*Prod{{Terms: []*Term{id}}, {Terms: []*Term{id, open, {Kind: KList, Elem: rref("expr"), Sep: g.tokN(6 % nt), ListOpt: true}, cls}}}
	case 1:
		expr.Prods = []*Prod{{Terms: []*Term{{Kind: KTok, Name: id.Name, Card: Plus}}}}
	default:
		expr.Prods = []*Prod{{Terms: []*Term{id}}, {Terms: []*Term{open, rref("expr"), cls}}}
	}
	s.Rules = []*Rule{prog, stmt, block, expr}
	// classic recovery points
	if g.chance(60) {
		stmt.Prods = append(stmt.Prods, &Prod{Terms: []*Term{errT(), semi}})
	} else if g.chance(50) {
		// a bare @error alternative inside a repetition
		stmt.Prods = append(stmt.Prods, &Prod{Terms: []*Term{errT()}})
	}
	if g.chance(40) {
		block.Prods = append(block.Prods, &Prod{Terms: []*Term{open, errT(), cls}})
	}
	if g.chance(30) {
		prog.Prods = append(prog.Prods, &Prod{Terms: []*Term{errT()}})
	}
}

// famLLish: every production of a rule starts with a terminal that no other
// production of that rule starts with; the rest is random.
func (g *gen) famLLish() {
	s := g.s
	s.Family = "llish"
	nr := 2 + g.pick(4)
	names := make([]string, nr)
	for i := range names {
		names[i] = fmt.Sprintf("r%d", i)
	}
	for i := 0; i < nr; i++ {
		r := &Rule{Name: names[i]}
		np := 1 + g.pick(3)
		lead := g.perm(len(g.toks))
		for j := 0; j < np && j < len(lead); j++ {
			p := &Prod{Terms: []*Term{{Kind: KTok, Name: g.toks[lead[j]], Lit: g.chance(40)}}}
			extra := g.pick(4)
			for k := 0; k < extra; k++ {
				p.Terms = append(p.Terms, g.randTerm(names, i))
			}
			r.Prods = append(r.Prods, p)
		}
		if i > 0 && g.chance(20) {
			r.Prods = append(r.Prods, &Prod{})
		}
		s.Rules = append(s.Rules, r)
	}
	// make sure every rule is reachable: chain r_i into r_{i-1} if unused
	used := map[string]bool{names[0]: true}
	for _, r := range s.Rules {
		for _, p := range r.Prods {
			for _, t := range p.Terms {
				if t.Kind == KRule {
					used[t.Name] = true
				}
				if t.Kind == KList && t.Elem.Kind == KRule {
					used[t.Elem.Name] = true
				}
			}
		}
	}
	for i := 1; i < nr; i++ {
		if !used[names[i]] {
			p := s.Rules[i-1].Prods[g.pick(len(s.Rules[i-1].Prods))]
			if len(p.Terms) == 0 {
				p = s.Rules[i-1].Prods[0]
			}
			p.Terms = append(p.Terms, rref(names[i]))
		}
	}
}

func (g *gen) randTerm(rules []string, self int) *Term {
	switch g.pick(10) {
	case 0, 1, 2, 3:
		t := g.tok()
		if g.chance(25) {
			t.Card = []Card{Opt, Star, Plus, StarF}[g.pick(4)]
		}
		return t
	case 4, 5, 6:
		// prefer later rules to limit left recursion / cycles
		j := self + 1 + g.pick(len(rules))
		if j >= len(rules) {
			j = g.pick(len(rules))
		}
		t := rref(rules[j])
		if g.chance(30) {
			t.Card = []Card{Opt, Star, Plus, StarF}[g.pick(4)]
		}
		return t
	case 7:
		elem := g.tok()
		if g.chance(50) {
			elem = rref(rules[g.pick(len(rules))])
		}
		return &Term{Kind: KList, Elem: elem, Sep: g.tok(), ListOpt: g.chance(40)}
	default:
		return g.tok()
	}
}

func (g *gen) famExpr() {
	s := g.s
	s.Family = "expr"
	nt := len(g.toks)
	nops := 1 + g.pick(3)
	if nops > nt-3 {
		nops = nt - 3
	}
	if nops < 1 {
		nops = 1
	}
	expr := &Rule{Name: "expr"}
	for i := 0; i < nops; i++ {
		q := fmt.Sprintf("@left(%d)", 1+g.pick(3))
		if g.chance(30) {
			q = fmt.Sprintf("@right(%d)", 1+g.pick(3))
		}
		expr.Prods = append(expr.Prods, &Prod{Terms: []*Term{rref("expr"), g.tokN(i), rref("expr")}, Qualif: q})
	}
	atom := g.tokN(nops)
	open, cls := g.tokN(nops+1), g.tokN(nops+2)
	expr.Prods = append(expr.Prods, &Prod{Terms: []*Term{atom}})
	if g.chance(70) && nt >= nops+3 {
		expr.Prods = append(expr.Prods, &Prod{Terms: []*Term{open, rref("expr"), cls}})
		if g.chance(50) {
			expr.Prods = append(expr.Prods, &Prod{Terms: []*Term{open, errT(), cls}})
		}
	}
	top := &Rule{Name: "top"}
	switch g.pick(3) {
	case 0:
		top.Prods = []*Prod{{Terms: []*Term{rref("expr")}}}
	case 1:
		top.Prods = []*Prod{{Terms: []*Term{{Kind: KList, Elem: rref("expr"), Sep: g.tokN(nops + 3)}}}}
	default:
		top.Prods = []*Prod{{Terms: []*Term{rref("expr")}}, {Terms: []*Term{errT()}}}
	}
	s.Rules = []*Rule{top, expr}
}

// famNullableChain: rules made of optional pieces followed by something that
// must be present; the shape in which recovery has to simulate reductions of
// several (possibly non-empty) productions.
func (g *gen) famNullableChain() {
	s := g.s
	s.Family = "nullable-chain"
	n := 2 + g.pick(3)
	var parts []*Term
	for i := 0; i < n; i++ {
		name := fmt.Sprintf("o%d", i)
		r := &Rule{Name: name}
		r.Prods = append(r.Prods, &Prod{Terms: []*Term{g.tokN(i)}})
		if g.chance(40) {
			r.Prods = append(r.Prods, &Prod{Terms: []*Term{g.tokN(i), g.tokN(i)}})
		}
		r.Prods = append(r.Prods, &Prod{})
		s.Rules = append(s.Rules, r)
		parts = append(parts, rref(name))
	}
	body := &Rule{Name: "body", Prods: []*Prod{{Terms: parts}}}
	top := &Rule{Name: "top"}
	switch g.pick(4) {
	case 0:
		top.Prods = []*Prod{{Terms: []*Term{rref("body"), errT()}}}
	case 1:
		top.Prods = []*Prod{{Terms: []*Term{rref("body"), g.tokN(n)}}, {Terms: []*Term{rref("body"), errT(), g.tokN(n)}}}
	case 2:
		top.Prods = []*Prod{{Terms: []*Term{g.tokN(n), rref("body"), g.tokN(n + 1)}}, {Terms: []*Term{g.tokN(n), rref("body"), errT()}}}
	default:
		top.Prods = []*Prod{{Terms: []*Term{rref("body"), g.tokN(n)}}, {Terms: []*Term{errT(), g.tokN(n)}}}
	}
	s.Rules = append([]*Rule{top, body}, s.Rules...)
}

// famRandomSmall: tiny unconstrained grammars; most are rejected by lox
// (conflicts), the accepted ones are unusual.
func (g *gen) famRandomSmall() {
	s := g.s
	s.Family = "random-small"
	nr := 2 + g.pick(2)
	names := make([]string, nr)
	for i := range names {
		names[i] = fmt.Sprintf("n%d", i)
	}
	ntok := 2 + g.pick(3)
	if ntok > len(g.toks) {
		ntok = len(g.toks)
	}
	for i := 0; i < nr; i++ {
		r := &Rule{Name: names[i]}
		np := 1 + g.pick(3)
		for j := 0; j < np; j++ {
			p := &Prod{}
			nt := g.pick(4)
			for k := 0; k < nt; k++ {
				switch g.pick(6) {
				case 0, 1, 2:
					p.Terms = append(p.Terms, &Term{Kind: KTok, Name: g.toks[g.pick(ntok)]})
				case 3, 4:
					p.Terms = append(p.Terms, rref(names[g.pick(nr)]))
				default:
					p.Terms = append(p.Terms, errT())
				}
			}
			r.Prods = append(r.Prods, p)
		}
		s.Rules = append(s.Rules, r)
	}
}

func (g *gen) famLists() {
	s := g.s
	s.Family = "lists"
	item := &Rule{Name: "item", Prods: []*Prod{{Terms: []*Term{g.tokN(0)}}, {Terms: []*Term{g.tokN(1), rref("item")}}}}
	if g.chance(50) {
		item.Prods = append(item.Prods, &Prod{Terms: []*Term{g.tokN(2), {Kind: KList, Elem: rref("item"), Sep: g.tokN(3), ListOpt: g.chance(50)}, g.tokN(4)}})
	}
	seq := &Rule{Name: "seq"}
	switch g.pick(4) {
	case 0:
		seq.Prods = []*Prod{{Terms: []*Term{rref("seq"), rref("item")}}, {Terms: []*Term{rref("item")}}}
	case 1:
		seq.Prods = []*Prod{{Terms: []*Term{rref("item"), rref("seq")}}, {}}
		if g.chance(50) {
			// right recursion without an empty alternative: every item stays on
			// the stack until the last one is read
			seq.Prods = []*Prod{{Terms: []*Term{rref("item"), rref("seq")}}, {Terms: []*Term{rref("item")}}}
		}
	case 2:
		seq.Prods = []*Prod{{Terms: []*Term{rrefc("item", Plus), {Kind: KTok, Name: g.tokN(5).Name, Card: Opt}}}}
	default:
		seq.Prods = []*Prod{{Terms: []*Term{{Kind: KList, Elem: rref("item"), Sep: g.tokN(3)}}}, {Terms: []*Term{rref("seq"), g.tokN(5), errT()}}}
	}
	top := &Rule{Name: "top", Prods: []*Prod{{Terms: []*Term{rref("seq")}}}}
	if g.chance(40) {
		top.Prods = append(top.Prods, &Prod{Terms: []*Term{errT()}})
	}
	if g.chance(35) {
		// a bare @error item inside lists and nesting
		item.Prods = append(item.Prods, &Prod{Terms: []*Term{errT()}})
	}
	s.Rules = []*Rule{top, seq, item}
}

// sprinkleErrors adds @error at random places: "any placement of @error".
func (g *gen) sprinkleErrors() {
	n := 1 + g.pick(2)
	for i := 0; i < n; i++ {
		r := g.s.Rules[g.pick(len(g.s.Rules))]
		switch g.pick(5) {
		case 0: // whole alternative
			r.Prods = append(r.Prods, &Prod{Terms: []*Term{errT()}})
		case 1: // @error followed by a synchronising token
			r.Prods = append(r.Prods, &Prod{Terms: []*Term{errT(), g.tok()}})
		case 2: // bracketed
			r.Prods = append(r.Prods, &Prod{Terms: []*Term{g.tok(), errT(), g.tok()}})
		case 3: // replace the tail of an existing production
			p := r.Prods[g.pick(len(r.Prods))]
			if len(p.Terms) >= 2 && p.Qualif == "" {
				cut := 1 + g.pick(len(p.Terms)-1)
				np := &Prod{Terms: append(append([]*Term{}, p.Terms[:cut]...), errT())}
				if g.chance(50) {
					np.Terms = append(np.Terms, p.Terms[len(p.Terms)-1])
				}
				r.Prods = append(r.Prods, np)
			}
		case 4: // insert into the middle of an existing production
			p := r.Prods[g.pick(len(r.Prods))]
			if len(p.Terms) >= 1 && p.Qualif == "" {
				at := g.pick(len(p.Terms) + 1)
				nt := append([]*Term{}, p.Terms[:at]...)
				nt = append(nt, errT())
				nt = append(nt, p.Terms[at:]...)
				r.Prods = append(r.Prods, &Prod{Terms: nt})
			}
		}
	}
}

// GenerateConflicting builds a specification whose grammar is (very likely)
// not LALR(1): the classic ambiguities plus conflicts that involve the accept
// action. lox must reject these with a diagnostic (C12); they are never used
// as simulated parsers.
func GenerateConflicting(seed uint64) *Spec { return GenerateConflictingKind(seed, -1) }

// GenerateConflictingKind forces one of the conflict shapes (0-7); -1 = random.
func GenerateConflictingKind(seed uint64, kind int) *Spec {
	g := &gen{r: core.NewRand(seed), s: &Spec{}}
	g.s.Pkg = "main"
	g.simpleLexer(true)
	s := g.s
	s.Family = "conflicting"
	t := func(i int) *Term { return &Term{Kind: KTok, Name: g.toks[i%len(g.toks)]} }
	if kind < 0 {
		kind = g.pick(8)
	}
	switch kind {
	case 0: // start rule reachable from itself through a unit production: accept/reduce
		s.Rules = []*Rule{{Name: "list", Prods: []*Prod{{Terms: []*Term{rref("list")}}, {Terms: []*Term{rref("list"), t(0)}}, {Terms: []*Term{t(0)}}}}}
	case 1:
		s.Rules = []*Rule{{Name: "s", Prods: []*Prod{{Terms: []*Term{rref("x")}}}}, {Name: "x", Prods: []*Prod{{Terms: []*Term{rref("s")}}, {Terms: []*Term{t(1)}}}}}
	case 2: // ambiguous expression without precedence
		s.Rules = []*Rule{{Name: "e", Prods: []*Prod{{Terms: []*Term{rref("e"), t(0), rref("e")}}, {Terms: []*Term{rref("e"), t(1), rref("e")}}, {Terms: []*Term{t(2)}}}}}
	case 3: // dangling else
		s.Rules = []*Rule{{Name: "st", Prods: []*Prod{{Terms: []*Term{t(0), rref("st")}}, {Terms: []*Term{t(0), rref("st"), t(1), rref("st")}}, {Terms: []*Term{t(2)}}}}}
	case 4: // reduce/reduce, between two or three differently named rules, in one or two states
		s.Rules = []*Rule{{Name: "s", Prods: []*Prod{{Terms: []*Term{rref("a")}}, {Terms: []*Term{rref("b")}}}}, {Name: "a", Prods: []*Prod{{Terms: []*Term{t(0)}}}}, {Name: "b", Prods: []*Prod{{Terms: []*Term{t(0)}}}}}
		if g.chance(60) {
			s.Rules[0].Prods = append(s.Rules[0].Prods, &Prod{Terms: []*Term{rref("c")}})
			s.Rules = append(s.Rules, &Rule{Name: "c", Prods: []*Prod{{Terms: []*Term{t(0)}}}})
		}
		if g.chance(60) {
			s.Rules[0].Prods = append(s.Rules[0].Prods, &Prod{Terms: []*Term{t(1), rref("a"), t(2)}}, &Prod{Terms: []*Term{t(1), rref("b"), t(2)}})
		}
	case 5: // nullable ambiguity
		s.Rules = []*Rule{{Name: "s", Prods: []*Prod{{Terms: []*Term{rrefc("a", Star), rrefc("a", Star)}}}}, {Name: "a", Prods: []*Prod{{Terms: []*Term{t(0)}}, {}}}}
	case 6: // start rule derives itself with @error around
		s.Rules = []*Rule{{Name: "s", Prods: []*Prod{{Terms: []*Term{rref("s")}}, {Terms: []*Term{errT()}}, {Terms: []*Term{rref("s"), errT()}}, {Terms: []*Term{t(0)}}}}}
	default:
		g.famRandomSmall()
		// force self references
		for _, r := range s.Rules {
			r.Prods = append(r.Prods, &Prod{Terms: []*Term{rref(s.Rules[0].Name)}})
		}
	}
	// decorate with extra unrelated rules some of the time
	if g.chance(40) {
		s.Rules = append(s.Rules, &Rule{Name: "extra", Prods: []*Prod{{Terms: []*Term{t(3), rref(s.Rules[0].Name)}}}})
		s.Rules[0].Prods = append(s.Rules[0].Prods, &Prod{Terms: []*Term{t(3), rref("extra")}})
	}
	for _, r := range s.Rules {
		r.Ret = g.pick(3)
	}
	return s
}

// Shrink returns a copy of the specification with fewer productions and rules
// (still well-formed: the start rule and everything it references stay).
func Shrink(s *Spec, seed uint64) *Spec {
	r := core.NewRand(seed)
	c := &Spec{Pkg: s.Pkg, Modes: s.Modes, OnBounds: s.OnBounds, TwoFiles: s.TwoFiles, Family: s.Family + "/shrunk", LexFamily: s.LexFamily}
	start := s.Rules[s.Start]
	// keep only the first production of the start rule and of what it needs
	need := map[string]bool{start.Name: true}
	var order []string
	order = append(order, start.Name)
	for i := 0; i < len(order); i++ {
		rule := s.RuleByName(order[i])
		if rule == nil {
			continue
		}
		keep := []*Prod{rule.Prods[0]}
		if len(rule.Prods) > 2 && r.Intn(2) == 0 {
			keep = append(keep, rule.Prods[1])
		}
		nr := &Rule{Name: rule.Name, Ret: rule.Ret, Prods: keep}
		c.Rules = append(c.Rules, nr)
		for _, p := range keep {
			for _, t := range p.Terms {
				names := []string{}
				if t.Kind == KRule {
					names = append(names, t.Name)
				}
				if t.Kind == KList {
					if t.Elem.Kind == KRule {
						names = append(names, t.Elem.Name)
					}
					if t.Sep.Kind == KRule {
						names = append(names, t.Sep.Name)
					}
				}
				for _, n := range names {
					if !need[n] {
						need[n] = true
						order = append(order, n)
					}
				}
			}
		}
	}
	c.Start = 0
	return c
}

// famErrorInRepetition: a bare @error alternative in a rule that is repeated,
// nested or shared between contexts, so that the state reached by shifting
// ERROR has reduce actions on LALR-merged lookaheads.
func (g *gen) famErrorInRepetition() {
	s := g.s
	s.Family = "error-in-repetition"
	a, open, cls := g.tokN(0), g.tokN(1), g.tokN(2)
	switch g.pick(3) {
	case 0:
		card := []Card{Star, Plus, StarF}[g.pick(3)]
		item := &Rule{Name: "item", Prods: []*Prod{{Terms: []*Term{a}}, {Terms: []*Term{open, rref("items"), cls}}, {Terms: []*Term{errT()}}}}
		items := &Rule{Name: "items", Prods: []*Prod{{Terms: []*Term{rrefc("item", card)}}}}
		top := &Rule{Name: "top", Prods: []*Prod{{Terms: []*Term{rref("items")}}}}
		s.Rules = []*Rule{top, items, item}
	case 1:
		// the same rule with a bare @error used in two contexts with different followers
		v := &Rule{Name: "v", Prods: []*Prod{{Terms: []*Term{g.tokN(3)}}, {Terms: []*Term{errT()}}}}
		top := &Rule{Name: "top", Prods: []*Prod{
			{Terms: []*Term{a, rref("v"), cls}},
			{Terms: []*Term{open, rref("v"), g.tokN(4)}}}}
		s.Rules = []*Rule{top, v}
	default:
		item := &Rule{Name: "item", Prods: []*Prod{{Terms: []*Term{a}}, {Terms: []*Term{errT()}}}}
		if g.chance(50) {
			item.Prods = append(item.Prods, &Prod{Terms: []*Term{open, {Kind: KList, Elem: rref("item"), Sep: g.tokN(3), ListOpt: g.chance(50)}, cls}})
		}
		top := &Rule{Name: "top", Prods: []*Prod{{Terms: []*Term{{Kind: KList, Elem: rref("item"), Sep: g.tokN(3)}}}}}
		s.Rules = []*Rule{top, item}
	}
}

// famWide: one rule with 36+ alternatives, each led by its own terminal, under
// repetition: a single LR state has that many outgoing symbols.
func (g *gen) famWide() {
	s := g.s
	s.Family = "wide"
	n := len(g.toks) - 2
	item := &Rule{Name: "item"}
	for i := 0; i < n; i++ {
		p := &Prod{Terms: []*Term{g.tokN(i)}}
		switch g.pick(4) {
		case 0:
			p.Terms = append(p.Terms, rref("tail"))
		case 1:
			p.Terms = append(p.Terms, g.tokN(n))
		}
		item.Prods = append(item.Prods, p)
	}
	if g.chance(50) {
		item.Prods = append(item.Prods, &Prod{Terms: []*Term{errT(), g.tokN(n + 1)}})
	}
	tail := &Rule{Name: "tail", Prods: []*Prod{{Terms: []*Term{g.tokN(n + 1)}}, {Terms: []*Term{g.tokN(n), g.tokN(n + 1)}}}}
	top := &Rule{Name: "top", Prods: []*Prod{{Terms: []*Term{rrefc("item", []Card{Star, Plus}[g.pick(2)])}}}}
	s.Rules = []*Rule{top, item, tail}
}

// famPendingErrors: a right-recursive chain whose every link holds an @error
// that is not reduced before the chain ends, inside a construct with an @error
// alternative of its own. A syntax error at the end of the chain makes recovery
// pop several Error symbols that no action has seen yet.
func (g *gen) famPendingErrors() {
	s := g.s
	s.Family = "pending-errors"
	x, z, k, l, n := g.tokN(0), g.tokN(1), g.tokN(2), g.tokN(3), g.tokN(4)
	link := &Prod{Terms: []*Term{k}}
	if g.chance(30) {
		link.Terms = append(link.Terms, g.tokN(5))
	}
	link.Terms = append(link.Terms, errT(), l, rref("c"))
	c := &Rule{Name: "c", Prods: []*Prod{link, {Terms: []*Term{n}}}}
	if g.chance(30) {
		c.Prods = append(c.Prods, &Prod{Terms: []*Term{k, l, rref("c")}})
	}
	sync := z
	if g.chance(25) {
		sync = g.tokN(6)
	}
	outer := &Rule{Name: "outer", Prods: []*Prod{{Terms: []*Term{x, rref("c"), z}}, {Terms: []*Term{x, errT(), sync}}}}
	top := &Rule{Name: "top", Prods: []*Prod{{Terms: []*Term{rrefc("outer", []Card{Star, Plus}[g.pick(2)])}}}}
	s.Rules = []*Rule{top, outer, c}
}

// famChains: 60 to 140 alternatives of three terminals each, under repetition.
// The automaton has several hundred states, most of them with one or two
// actions on terminals with one- and two-digit numbers: many small, distinct
// table rows over three-digit state numbers.
func (g *gen) famChains() {
	s := g.s
	s.Family = "chains"
	n := len(g.toks) - 1
	np := 60 + g.pick(81)
	item := &Rule{Name: "item"}
	seen := map[[3]int]bool{}
	for len(item.Prods) < np {
		k := [3]int{g.pick(n), g.pick(n), g.pick(n)}
		if seen[k] {
			continue
		}
		seen[k] = true
		item.Prods = append(item.Prods, &Prod{Terms: []*Term{g.tokN(k[0]), g.tokN(k[1]), g.tokN(k[2])}})
	}
	if g.chance(50) {
		item.Prods = append(item.Prods, &Prod{Terms: []*Term{errT(), g.tokN(n)}})
	}
	top := &Rule{Name: "top", Prods: []*Prod{{Terms: []*Term{rrefc("item", []Card{Star, Plus}[g.pick(2)])}}}}
	s.Rules = []*Rule{top, item}
}

// famIndirectLeftRecursion: a left-recursive cycle through two rules, used
// after a nullable or optional non-terminal, so that lookahead sets depend on
// FIRST of a rule that is being computed.
func (g *gen) famIndirectLeftRecursion() {
	s := g.s
	s.Family = "indirect-left-recursion"
	do, semi, open, cls, id, pub := g.tokN(0), g.tokN(1), g.tokN(2), g.tokN(3), g.tokN(4), g.tokN(5)
	mod := &Rule{Name: "mod", Prods: []*Prod{{Terms: []*Term{pub}}, {}}}
	call := &Rule{Name: "call", Prods: []*Prod{{Terms: []*Term{rref("expr"), open, cls}}}}
	expr := &Rule{Name: "expr", Prods: []*Prod{{Terms: []*Term{rref("call")}}, {Terms: []*Term{id}}}}
	if g.chance(40) {
		call.Prods = append(call.Prods, &Prod{Terms: []*Term{rref("expr"), open, {Kind: KList, Elem: rref("expr"), Sep: g.tokN(6)}, cls}})
	}
	stmt := &Rule{Name: "stmt"}
	switch g.pick(5) {
	case 3, 4:
		// FIRST(expr) is needed before FIRST(call), and call follows a non-nullable non-terminal
		mod.Prods = []*Prod{{Terms: []*Term{pub}}, {Terms: []*Term{g.tokN(7)}}}
		stmt.Prods = []*Prod{{Terms: []*Term{rref("mod"), rref("expr"), semi}}, {Terms: []*Term{do, rref("mod"), rref("call"), semi}}}
	case 0:
		stmt.Prods = []*Prod{{Terms: []*Term{do, rref("mod"), rref("call"), semi}}, {Terms: []*Term{rref("call"), semi}}}
	case 1:
		stmt.Prods = []*Prod{{Terms: []*Term{do, rrefc("mod", Opt), rref("call"), semi}}}
	default:
		stmt.Prods = []*Prod{{Terms: []*Term{do, rref("mod"), rref("mod"), rref("call"), semi}}, {Terms: []*Term{id, semi}}}
	}
	if g.chance(60) {
		stmt.Prods = append(stmt.Prods, &Prod{Terms: []*Term{errT(), semi}})
	}
	top := &Rule{Name: "top", Prods: []*Prod{{Terms: []*Term{rrefc("stmt", []Card{Star, Plus}[g.pick(2)])}}}}
	s.Rules = []*Rule{top, stmt, mod, call, expr}
}

// GenerateReservedRuleNames builds a small accepted grammar in which parser
// rules carry the names lox reserves for terminals only (ERROR, EOF): the rule
// and the terminal then have the same TermName, a tie for every sort by name.
func GenerateReservedRuleNames(seed uint64) *Spec {
	g := &gen{r: core.NewRand(seed), s: &Spec{}}
	g.s.Pkg = "main"
	g.simpleLexer(true)
	s := g.s
	s.Family = "reserved-rule-names"
	t := func(i int) *Term { return &Term{Kind: KTok, Name: g.toks[i%len(g.toks)]} }
	errRule := &Rule{Name: "ERROR", Prods: []*Prod{{Terms: []*Term{t(2)}}}}
	stmt := &Rule{Name: "stmt", Prods: []*Prod{{Terms: []*Term{rref("ERROR"), t(0)}}, {Terms: []*Term{errT(), t(0)}}, {Terms: []*Term{t(1)}}}}
	top := &Rule{Name: "top", Prods: []*Prod{{Terms: []*Term{rrefc("stmt", Star)}}}}
	s.Rules = []*Rule{top, stmt, errRule}
	if g.chance(50) {
		s.Rules = append(s.Rules, &Rule{Name: "EOF", Prods: []*Prod{{Terms: []*Term{t(3)}}}})
		stmt.Prods = append(stmt.Prods, &Prod{Terms: []*Term{rref("EOF"), t(1)}})
	}
	for _, r := range s.Rules {
		r.Ret = g.pick(4)
	}
	return s
}
