package specgen

import (
	"fmt"
	"testing"
)

func TestShow(t *testing.T) {
	for i := 0; i < 4; i++ {
		s := Generate(uint64(1000+i), Options{RichLexer: true})
		fmt.Println(s.LexerText() + s.ParserText())
		fmt.Println("-----")
	}
	s := Generate(7, Options{RichParser: true})
	fmt.Println(s.LexerText() + s.ParserText())
	for n, f := range s.GoStageA(GoVariant{FileName: "parser.go"}) {
		fmt.Println("==", n)
		fmt.Println(f)
	}
}
