// Package instr rewrites a scratch copy of dcaiafa/lox so that the simulator
// owns its nondeterminism (passes P1-P3), and rewrites generated *.gen.go files
// so that the run-time simulator can count and schedule them (pass P4).
package instr

import (
	"bytes"
	"fmt"
	"go/ast"
	"go/format"
	"go/parser"
	"go/token"
	"go/types"
	"os"
	"path/filepath"
	"sort"
	"strconv"
	"strings"

	"golang.org/x/tools/go/ast/astutil"
	"golang.org/x/tools/go/packages"
)

const (
	LoxModule   = "github.com/dcaiafa/lox"
	SimrtImport = LoxModule + "/internal/zzverif/simrt"
)

// wrapped lists, per import path, the functions simrt provides a same-signature
// wrapper for. The wrapper has the same name in package simrt.
var wrapped = map[string]map[string]bool{
	"os":                             {"ReadFile": true, "ReadDir": true, "WriteFile": true, "Exit": true, "Getwd": true, "OpenFile": true, "Create": true, "CreateTemp": true, "Rename": true, "Remove": true},
	"time":                           {"Now": true},
	"path/filepath":                  {"Glob": true, "Abs": true},
	"go/parser":                      {"ParseFile": true},
	"golang.org/x/tools/go/packages": {"Load": true},
}

// pure lists functions of the seam packages that touch nothing outside the
// process; everything else from those packages is reported as unwrapped.
var pure = map[string]map[string]bool{
	"os":            {"Getenv": true, "Args": true, "IsNotExist": true, "IsExist": true, "IsPermission": true, "Getpid": true, "LookupEnv": true},
	"time":          {"Since": true, "Duration": true, "Sleep": true, "Date": true, "Unix": true, "Parse": true, "Until": true, "After": true, "Tick": true, "NewTimer": true},
	"path/filepath": {"Join": true, "Ext": true, "Clean": true, "Rel": true, "Base": true, "Dir": true, "ToSlash": true, "FromSlash": true, "IsAbs": true, "Split": true, "Match": true, "VolumeName": true},
	"go/parser":     {"ParseExpr": true, "ParseExprFrom": true},
	"golang.org/x/tools/go/packages": {},
}

type Report struct {
	Packages  []string       `json:"packages"`
	Files     int            `json:"files"`
	P1Sites   []string       `json:"p1_sites"`
	P2Calls   map[string]int `json:"p2_calls"`
	Unwrapped []string       `json:"unwrapped"`
	Ticks     int            `json:"tick_points"`
	GoStmts   []string       `json:"go_statements"`
}

func env() []string {
	e := os.Environ()
	e = append(e, "GOFLAGS=-mod=mod", "GOPROXY=off", "GOSUMDB=off", "GOTOOLCHAIN=local")
	return e
}

// InstrumentLox applies P1 (map order), P2 (I/O seams) and P3 (ticks) to every
// package of the lox module that cmd/lox links, in place under root.
func InstrumentLox(root string) (*Report, error) {
	cfg := &packages.Config{
		Mode: packages.NeedName | packages.NeedFiles | packages.NeedCompiledGoFiles | packages.NeedSyntax | packages.NeedTypes |
			packages.NeedTypesInfo | packages.NeedImports | packages.NeedDeps,
		Dir: root,
		Env: env(),
	}
	pkgs, err := packages.Load(cfg, "./cmd/lox")
	if err != nil {
		return nil, err
	}
	rep := &Report{P2Calls: map[string]int{}}
	seen := map[string]bool{}
	var todo []*packages.Package
	var walk func(p *packages.Package)
	walk = func(p *packages.Package) {
		if seen[p.PkgPath] {
			return
		}
		seen[p.PkgPath] = true
		if !(p.PkgPath == LoxModule || strings.HasPrefix(p.PkgPath, LoxModule+"/")) || strings.Contains(p.PkgPath, "/internal/zzverif") {
			return
		}
		todo = append(todo, p)
		paths := make([]string, 0, len(p.Imports))
		for ip := range p.Imports {
			paths = append(paths, ip)
		}
		sort.Strings(paths)
		for _, ip := range paths {
			walk(p.Imports[ip])
		}
	}
	for _, p := range pkgs {
		walk(p)
	}
	sort.Slice(todo, func(i, j int) bool { return todo[i].PkgPath < todo[j].PkgPath })
	for _, p := range todo {
		if len(p.Errors) > 0 {
			return nil, fmt.Errorf("package %s does not type-check: %v", p.PkgPath, p.Errors[0])
		}
		rep.Packages = append(rep.Packages, p.PkgPath)
		for i, f := range p.Syntax {
			name := p.CompiledGoFiles[i]
			if strings.HasSuffix(name, "_test.go") {
				continue
			}
			rel, rerr := filepath.Rel(root, name)
			if rerr != nil || strings.HasPrefix(rel, "..") || !strings.HasPrefix(name, root+string(filepath.Separator)) {
				return nil, fmt.Errorf("refusing to rewrite %s: outside the scratch tree %s", name, root)
			}
			isMain := p.PkgPath == LoxModule+"/cmd/lox"
			if err := rewriteFile(p, f, name, rel, isMain, rep); err != nil {
				return nil, fmt.Errorf("%s: %w", rel, err)
			}
			rep.Files++
		}
		if p.PkgPath == LoxModule+"/cmd/lox" {
			mainAdd := "package main\n\nimport \"" + SimrtImport + "\"\n\n" +
				"// Added by the verif instrumenter: the real main() of lox was renamed to\n" +
				"// loxMainOriginal; nothing else in this package changed.\n" +
				"func main() {\n\tsimrt.Init()\n\tloxMainOriginal()\n\tsimrt.Finish(0)\n}\n"
			if err := os.WriteFile(filepath.Join(root, "cmd/lox/zz_verif_main.go"), []byte(mainAdd), 0o644); err != nil {
				return nil, err
			}
		}
	}
	sort.Strings(rep.P1Sites)
	sort.Strings(rep.Unwrapped)
	return rep, nil
}

func rewriteFile(p *packages.Package, f *ast.File, abs, rel string, isMain bool, rep *Report) error {
	fset := p.Fset
	info := p.TypesInfo
	needSimrt := false

	pkgOf := func(id *ast.Ident) string {
		if obj, ok := info.Uses[id].(*types.PkgName); ok {
			return obj.Imported().Path()
		}
		return ""
	}

	// P1 + P2 + go-statement inventory.
	ast.Inspect(f, func(n ast.Node) bool {
		switch n := n.(type) {
		case *ast.GoStmt:
			rep.GoStmts = append(rep.GoStmts, fmt.Sprintf("%s:%d", rel, fset.Position(n.Pos()).Line))
		case *ast.RangeStmt:
			tv, ok := info.Types[n.X]
			if !ok {
				return true
			}
			if _, isMap := tv.Type.Underlying().(*types.Map); !isMap {
				// A type parameter whose core type is a map also ranges in random order.
				if tp, ok := tv.Type.(*types.TypeParam); ok {
					if _, isMap := coreType(tp).(*types.Map); !isMap {
						return true
					}
				} else {
					return true
				}
			}
			site := fmt.Sprintf("%s:%d", rel, fset.Position(n.Pos()).Line)
			rep.P1Sites = append(rep.P1Sites, site)
			n.X = &ast.CallExpr{
				Fun:  &ast.SelectorExpr{X: ast.NewIdent("simrt"), Sel: ast.NewIdent("MapSeq")},
				Args: []ast.Expr{n.X, &ast.BasicLit{Kind: token.STRING, Value: strconv.Quote(site)}},
			}
			needSimrt = true
		case *ast.CallExpr:
			// f.Write(b) / f.WriteString(s) / f.Sync() / f.Close() with f of type *os.File
			sel, ok := n.Fun.(*ast.SelectorExpr)
			if !ok {
				return true
			}
			fileMethods := map[string]string{"Write": "FileWrite", "WriteString": "FileWriteString", "Sync": "FileSync", "Close": "FileClose"}
			wrapper, isFileMethod := fileMethods[sel.Sel.Name]
			if !isFileMethod {
				return true
			}
			if selInfo, ok := info.Selections[sel]; ok && selInfo.Kind() == types.MethodVal {
				if ptr, ok := selInfo.Recv().(*types.Pointer); ok {
					if named, ok := ptr.Elem().(*types.Named); ok && named.Obj().Pkg() != nil && named.Obj().Pkg().Path() == "os" && named.Obj().Name() == "File" {
						rep.P2Calls["(*os.File)."+sel.Sel.Name]++
						n.Args = append([]ast.Expr{sel.X}, n.Args...)
						n.Fun = &ast.SelectorExpr{X: ast.NewIdent("simrt"), Sel: ast.NewIdent(wrapper)}
						needSimrt = true
					}
				}
			}
		case *ast.SelectorExpr:
			id, ok := n.X.(*ast.Ident)
			if !ok {
				return true
			}
			path := pkgOf(id)
			if path == "" {
				return true
			}
			w, isSeam := wrapped[path]
			if !isSeam {
				return true
			}
			obj := info.Uses[n.Sel]
			if _, isFunc := obj.(*types.Func); !isFunc {
				return true // os.Stderr, os.FileMode, ...
			}
			if w[n.Sel.Name] {
				rep.P2Calls[path+"."+n.Sel.Name]++
				n.X = ast.NewIdent("simrt")
				needSimrt = true
			} else if !pure[path][n.Sel.Name] {
				rep.Unwrapped = append(rep.Unwrapped, fmt.Sprintf("%s:%d %s.%s", rel, fset.Position(n.Pos()).Line, path, n.Sel.Name))
			}
		}
		return true
	})

	// P3: ticks at function entry and loop heads.
	tick := func() ast.Stmt {
		rep.Ticks++
		return &ast.ExprStmt{X: &ast.CallExpr{Fun: &ast.SelectorExpr{X: ast.NewIdent("simrt"), Sel: ast.NewIdent("Tick")}}}
	}
	ast.Inspect(f, func(n ast.Node) bool {
		switch n := n.(type) {
		case *ast.FuncDecl:
			if n.Body != nil {
				n.Body.List = append([]ast.Stmt{tick()}, n.Body.List...)
				needSimrt = true
			}
		case *ast.FuncLit:
			n.Body.List = append([]ast.Stmt{tick()}, n.Body.List...)
			needSimrt = true
		case *ast.ForStmt:
			n.Body.List = append([]ast.Stmt{tick()}, n.Body.List...)
			needSimrt = true
		case *ast.RangeStmt:
			n.Body.List = append([]ast.Stmt{tick()}, n.Body.List...)
			needSimrt = true
		}
		return true
	})

	if isMain {
		for _, d := range f.Decls {
			if fd, ok := d.(*ast.FuncDecl); ok && fd.Recv == nil && fd.Name.Name == "main" {
				fd.Name.Name = "loxMainOriginal"
			}
		}
	}

	if needSimrt {
		astutil.AddImport(fset, f, SimrtImport)
	}
	// Imports that lost their last use (e.g. "os" when only os.WriteFile was
	// used) become blank imports.
	for _, imp := range f.Imports {
		path, _ := strconv.Unquote(imp.Path.Value)
		if _, isSeam := wrapped[path]; !isSeam {
			continue
		}
		if imp.Name != nil && (imp.Name.Name == "_" || imp.Name.Name == ".") {
			continue
		}
		if !usesImport(f, info, path) {
			imp.Name = ast.NewIdent("_")
		}
	}

	var buf bytes.Buffer
	if err := format.Node(&buf, fset, f); err != nil {
		return err
	}
	return os.WriteFile(abs, buf.Bytes(), 0o644)
}

func coreType(tp *types.TypeParam) types.Type {
	iface, ok := tp.Constraint().Underlying().(*types.Interface)
	if !ok {
		return nil
	}
	var core types.Type
	for i := 0; i < iface.NumEmbeddeds(); i++ {
		switch t := iface.EmbeddedType(i).(type) {
		case *types.Union:
			for j := 0; j < t.Len(); j++ {
				core = t.Term(j).Type().Underlying()
			}
		default:
			core = t.Underlying()
		}
	}
	return core
}

// usesImport reports whether any selector in f still refers to the package
// (after P2 replaced some of them by simrt).
func usesImport(f *ast.File, info *types.Info, path string) bool {
	used := false
	ast.Inspect(f, func(n ast.Node) bool {
		sel, ok := n.(*ast.SelectorExpr)
		if !ok {
			return true
		}
		id, ok := sel.X.(*ast.Ident)
		if !ok {
			return true
		}
		if obj, ok := info.Uses[id].(*types.PkgName); ok && obj.Imported().Path() == path {
			used = true
		}
		return true
	})
	return used
}

// ---------------------------------------------------------------------------
// P4: generated files of a simulated grammar package.

type GenReport struct {
	Globals []string
	Yields  int
}

// InstrumentGenerated rewrites the *.gen.go files in dir: hrt.Tick(site) at
// every function entry and loop head (Tick is also the scheduler's yield
// point), and appends to base.gen.go a function returning the address of every
// package-level variable declared in the generated files.
func InstrumentGenerated(dir, hrtImport string) (*GenReport, error) {
	rep := &GenReport{}
	names := []string{"base.gen.go", "lexer.gen.go", "parser.gen.go"}
	var globals []string
	for _, name := range names {
		path := filepath.Join(dir, name)
		fset := token.NewFileSet()
		f, err := parser.ParseFile(fset, path, nil, parser.ParseComments)
		if err != nil {
			return nil, err
		}
		for _, d := range f.Decls {
			gd, ok := d.(*ast.GenDecl)
			if !ok || gd.Tok != token.VAR {
				continue
			}
			for _, s := range gd.Specs {
				for _, n := range s.(*ast.ValueSpec).Names {
					if n.Name != "_" {
						globals = append(globals, n.Name)
					}
				}
			}
		}
		siteNo := 0
		fnName := ""
		tick := func(pos token.Pos) ast.Stmt {
			siteNo++
			rep.Yields++
			site := fmt.Sprintf("%s:%s:%d", strings.TrimSuffix(name, ".gen.go"), fnName, siteNo)
			sel := "Tick"
			if fnName == "_Find" {
				// table lookup helper: counted and preemptible, but a budget
				// verdict is attributed to the calling function
				sel = "TickLeaf"
			}
			return &ast.ExprStmt{X: &ast.CallExpr{
				Fun:  &ast.SelectorExpr{X: ast.NewIdent("hrt"), Sel: ast.NewIdent(sel)},
				Args: []ast.Expr{&ast.BasicLit{Kind: token.STRING, Value: strconv.Quote(site)}},
			}}
		}
		touched := false
		for _, d := range f.Decls {
			fd, ok := d.(*ast.FuncDecl)
			if !ok || fd.Body == nil {
				continue
			}
			fnName = fd.Name.Name
			if fnName == "_cast" || fnName == "Push" || fnName == "Pop" || fnName == "Peek" || fnName == "PeekSlice" || fnName == "_TokenToString" || fnName == "Token" {
				// Leaf helpers without loops: no scheduling point needed, and
				// ticking them would only slow the simulation down.
				continue
			}
			rep.Yields++
			enterSel := "Enter"
			if fnName == "_Find" {
				enterSel = "TickLeaf"
			}
			enter := &ast.ExprStmt{X: &ast.CallExpr{
				Fun:  &ast.SelectorExpr{X: ast.NewIdent("hrt"), Sel: ast.NewIdent(enterSel)},
				Args: []ast.Expr{&ast.BasicLit{Kind: token.STRING, Value: strconv.Quote(strings.TrimSuffix(name, ".gen.go") + ":" + fnName)}},
			}}
			fd.Body.List = append([]ast.Stmt{enter}, fd.Body.List...)
			touched = true
			ast.Inspect(fd.Body, func(n ast.Node) bool {
				switch n := n.(type) {
				case *ast.ForStmt:
					n.Body.List = append([]ast.Stmt{tick(n.Pos())}, n.Body.List...)
				case *ast.RangeStmt:
					n.Body.List = append([]ast.Stmt{tick(n.Pos())}, n.Body.List...)
				}
				return true
			})
		}
		if name == "base.gen.go" {
			touched = true
		}
		if touched {
			astutil.AddNamedImport(fset, f, "hrt", hrtImport)
		}
		var buf bytes.Buffer
		if err := format.Node(&buf, fset, f); err != nil {
			return nil, err
		}
		if name == "base.gen.go" {
			// appended after the other files were scanned: see below
		}
		if err := os.WriteFile(path, buf.Bytes(), 0o644); err != nil {
			return nil, err
		}
	}
	sort.Strings(globals)
	rep.Globals = globals
	var sb strings.Builder
	sb.WriteString("\n// Added by the verif instrumenter (pass P4).\nfunc __verifGlobals() []hrt.Global {\n\treturn []hrt.Global{\n")
	for _, g := range globals {
		fmt.Fprintf(&sb, "\t\t{Name: %q, Ptr: &%s},\n", g, g)
	}
	sb.WriteString("\t}\n}\n")
	bp := filepath.Join(dir, "base.gen.go")
	data, err := os.ReadFile(bp)
	if err != nil {
		return nil, err
	}
	data = append(data, sb.String()...)
	return rep, os.WriteFile(bp, data, 0o644)
}
